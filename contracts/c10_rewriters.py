"""C10: normal-form rewriters and Boolean quantifier elimination.

Symbolic part (pyvc): the connective cases of NNFizer (children pre-negated by
_get_children, rebuilt by the callbacks), every AIGer callback.
Bounded part (native/bounded_more.py: rewriters): prenex (alpha-renaming loops),
TimesDistributor, partitions, propagate_toplevel, both QE procedures, and the
quantifier cases of NNF/AIG - generated formulas evaluated exactly."""
import z3

from pyvc import sorts as S
from pyvc.sorts import Node, Ty, B
from pyvc.symex import Obj, DictVal, is_node, is_z3
from pyvc.harness import Variant
from . import core

DEADLINE = {"quick": 200, "thorough": 900}
REPLAY_KIND = "rewriter"
CONNECTIVES = (S.AND, S.OR, S.NOT, S.IMPLIES, S.IFF, S.FORALL, S.EXISTS)


def is_atom(n):
    """not a Boolean connective / quantifier / Boolean ITE"""
    return z3.And(*[S.op(n) != k for k in CONNECTIVES], z3.Not(z3.And(S.op(n) == S.ITE, S.type_of(n) == S.BoolT)))


isnnf = z3.Function("isnnf", Node, B)      # negations only on atoms, no implies/iff/Boolean-ite
isaig = z3.Function("isaig", Node, B)      # only and / not above atoms


def shape_facts(ex, world, pred, which):
    """definition of the shape predicate at every node whose operator is known on this path"""
    for info in list(ex.ghost.get("nodeinfo", {}).values()):
        t, Kop, k = info["t"], info["op"], info["k"]
        if Kop is None or k is None:
            continue
        kids = [S.arg(t, S.K(i)) for i in range(k)]
        if which == "nnf":
            if Kop in (S.AND, S.OR):
                ex.assume(pred(t) == z3.And([pred(c) for c in kids]))
            elif Kop == S.NOT:
                ex.assume(pred(t) == is_atom(kids[0]))
            elif Kop in (S.IMPLIES, S.IFF):
                ex.assume(pred(t) == False)
            elif Kop in S.QUANT_OPS:
                ex.assume(pred(t) == pred(kids[0]))
            elif Kop == S.ITE:
                ex.assume(z3.Implies(S.type_of(t) == S.BoolT, pred(t) == False))
                ex.assume(z3.Implies(S.type_of(t) != S.BoolT, pred(t)))
            else:
                ex.assume(pred(t))
        else:
            if Kop == S.AND:
                ex.assume(pred(t) == z3.And([pred(c) for c in kids]))
            elif Kop == S.NOT:
                ex.assume(pred(t) == pred(kids[0]))
            elif Kop in (S.OR, S.IMPLIES, S.IFF):
                ex.assume(pred(t) == False)
            elif Kop in S.QUANT_OPS:
                ex.assume(pred(t) == pred(kids[0]))
            elif Kop == S.ITE:
                ex.assume(z3.Implies(S.type_of(t) == S.BoolT, pred(t) == False))
                ex.assume(z3.Implies(S.type_of(t) != S.BoolT, pred(t)))
            else:
                ex.assume(pred(t))


class NnfVariant(Variant):
    """NNFizer: (_get_children, callback) pair for a formula f with top operator K (and, when K is
    Not, inner operator J): given NNF results equivalent to the children _get_children lists,
    the callback returns an NNF formula equivalent to f."""
    prop_ids = ("C10",)
    bounded = "arity"

    def __init__(self, world, Kop, k, Jop=None, j=None):
        self.world, self.Kop, self.k, self.Jop, self.j = world, Kop, k, Jop, j
        self.qualname = "pysmt.rewritings.NNFizer." + {S.NOT: "walk_not", S.AND: "walk_and", S.OR: "walk_or", S.IMPLIES: "walk_implies",
                                                        S.IFF: "walk_iff", S.ITE: "walk_ite"}[Kop]
        self.name = "nnf:%s/%d%s" % (S.OPNAMES[Kop], k, "" if Jop is None else "(%s/%d)" % (S.OPNAMES[Jop], j))

    def setup(self, ex):
        W = self.world
        env = core.make_env(ex, W)
        f = z3.Const("formula", Node)
        self.formula = f
        ex.assume(S.op(f) == self.Kop)
        W.learn(ex, f, op=self.Kop, k=self.k)
        ex.assume(S.type_of(f) == S.BoolT)
        if self.Jop is not None:
            s = S.arg(f, S.K(0))
            ex.assume(S.op(s) == self.Jop)
            W.learn(ex, s, op=self.Jop, k=self.j)
        elif self.Kop == S.NOT:
            s = S.arg(f, S.K(0))
            ex.assume(is_atom(s))                      # negated atom
        self.w = Obj("pysmt.rewritings.NNFizer", {"env": env, "mgr": env.fields["_formula_manager"], "memoization": DictVal(),
                                                 "stack": []}, tag="nnfizer")
        # the pair (_get_children, callback) is what is under contract: an exception of either is an outcome, not a set-up failure
        from pyvc import builtins_impl as BI
        from pyvc.symex import Builtin
        v = self

        def run(exx, a_, kw_):
            fi = W.repo.method("pysmt.rewritings.NNFizer", "_get_children")
            kids = exx.call(W.wrap_func(fi, fi.module, bound=v.w), [f], {})
            v.kids = BI.iterate(W, exx, kids)
            v.args = []
            for i, c in enumerate(v.kids):
                W.touch(exx, c)
                a = z3.Const("nnf%d" % i, Node)
                W.touch(exx, a)
                exx.assume(S.type_of(a) == S.BoolT)
                exx.assume(S.type_of(c) == S.BoolT)
                exx.assume(S.val(a) == S.val(c))
                exx.assume(isnnf(a))
                exx.assume(z3.Implies(is_atom(c), a == c))     # atoms are returned unchanged (nnf:atom[*] below)
                v.args.append(a)
            fi2 = W.repo.func(v.qualname)
            return exx.call(W.wrap_func(fi2, fi2.module, bound=v.w), [f], {"args": list(v.args)})
        return Builtin("children+callback:" + self.qualname, run), [], {}

    def check(self, ex, outcome):
        kind, r = outcome
        if kind == "raise":
            return [("no-exception", z3.BoolVal(False))]
        if not is_node(r):
            return [("returns-node", z3.BoolVal(False))]
        self.world.touch(ex, r)
        shape_facts(ex, self.world, isnnf, "nnf")
        return [("equivalent", S.val(r) == S.val(self.formula)), ("negation-normal-form", isnnf(r))]

    def witness(self, model, ex):
        from pyvc.concretize import node_to_json
        return {"formula": node_to_json(model, self.formula, 3)}


class NnfAtomVariant(Variant):
    """Bool-typed atoms (symbols, constants, relations, applications) are returned unchanged"""
    prop_ids = ("C10",)

    def __init__(self, world, Kop, k, target):
        self.world, self.Kop, self.k = world, Kop, k
        self.qualname = target
        self.name = "nnf:atom[%s]" % S.OPNAMES[Kop]

    def setup(self, ex):
        W = self.world
        env = core.make_env(ex, W)
        f = z3.Const("formula", Node)
        self.formula = f
        ex.assume(S.op(f) == self.Kop)
        W.learn(ex, f, op=self.Kop, k=self.k)
        w = Obj("pysmt.rewritings.NNFizer", {"env": env, "mgr": env.fields["_formula_manager"], "memoization": DictVal(), "stack": []})
        fi = W.repo.func(self.qualname)
        return W.wrap_func(fi, fi.module, bound=w), [f], {"args": [None] * self.k}

    def check(self, ex, outcome):
        kind, r = outcome
        if kind == "raise":
            return [("no-exception", z3.BoolVal(False))]
        if r is None:
            return [("non-boolean-term-gives-None", S.type_of(self.formula) != S.BoolT)]
        return [("atom-unchanged", r == self.formula)]


class AigVariant(Variant):
    prop_ids = ("C10",)

    def __init__(self, world, Kop, k, target):
        self.world, self.Kop, self.k = world, Kop, k
        self.qualname = target
        self.name = "aig:%s[%s/%d]" % (target.rsplit(".", 1)[1], S.OPNAMES[Kop], k)
        if Kop in (S.AND, S.OR):
            self.bounded = "arity"

    def setup(self, ex):
        W = self.world
        env = core.make_env(ex, W)
        f = z3.Const("formula", Node)
        self.formula = f
        ex.assume(S.op(f) == self.Kop)
        W.learn(ex, f, op=self.Kop, k=self.k)
        self.args = []
        for i in range(self.k):
            c = S.arg(f, S.K(i))
            a = z3.Const("aig%d" % i, Node)
            W.touch(ex, a)
            ex.assume(S.type_of(a) == S.type_of(c))
            ex.assume(S.val(a) == S.val(c))
            ex.assume(isaig(a))
            self.args.append(a)
        w = Obj("pysmt.rewritings.AIGer", {"env": env, "mgr": env.fields["_formula_manager"], "memoization": DictVal(), "stack": []})
        fi = W.repo.func(self.qualname)
        return W.wrap_func(fi, fi.module, bound=w), [f], {"args": list(self.args)}

    def check(self, ex, outcome):
        kind, r = outcome
        if kind == "raise":
            return [("no-exception", z3.BoolVal(False))]
        self.world.touch(ex, r)
        shape_facts(ex, self.world, isaig, "aig")
        goals = [("equivalent", S.val(r) == S.val(self.formula))]
        if self.Kop in (S.AND, S.OR, S.NOT, S.IMPLIES, S.IFF):
            goals.append(("and-inverter-form", isaig(r)))
        elif self.Kop == S.ITE:
            goals.append(("and-inverter-form", z3.Implies(S.type_of(self.formula) == S.BoolT, isaig(r))))
        return goals


def extras(prop, tier, seed):
    from pyvc.report import run_bounded
    if prop == "C20":
        return [run_bounded("partitions", tier, seed)]
    if prop != "C10":
        return []
    return [run_bounded("rewriters", tier, seed, timeout=3000)]


def variants(world, tier="quick", only=None):
    out = []
    for Kop, ks in ((S.AND, (2, 3)), (S.OR, (2, 3)), (S.IMPLIES, (2,)), (S.IFF, (2,)), (S.ITE, (3,))):
        for k in ks:
            out.append(NnfVariant(world, Kop, k))
    out.append(NnfVariant(world, S.NOT, 1))
    # (a negation directly under a negation does not exist: the node invariant - FormulaManager.Not removes it - makes that
    #  branch of _get_children unreachable; the per-variant vacuity guard reports such a variant instead of passing it)
    for Jop, js in ((S.AND, (2, 3)), (S.OR, (2, 3)), (S.IMPLIES, (2,)), (S.IFF, (2,)), (S.ITE, (3,))):
        for j in js:
            out.append(NnfVariant(world, S.NOT, 1, Jop, j))
    dn = world.repo.dispatch("pysmt.rewritings.NNFizer")
    for Kop, k in ((S.SYMBOL, 0), (S.BOOL_CONSTANT, 0), (S.LE, 2), (S.EQUALS, 2), (S.BV_ULT, 2), (S.STR_CONTAINS, 2),
                   (S.FUNCTION, 1), (S.INT_CONSTANT, 0)):
        out.append(NnfAtomVariant(world, Kop, k, dn[Kop]))
    disp = world.repo.dispatch("pysmt.rewritings.AIGer")
    for Kop, ks in ((S.AND, (2, 3)), (S.OR, (2, 3)), (S.NOT, (1,)), (S.IMPLIES, (2,)), (S.IFF, (2,)), (S.ITE, (3,)),
                    (S.SYMBOL, (0,)), (S.LE, (2,)), (S.BOOL_CONSTANT, (0,)), (S.EQUALS, (2,)), (S.BV_ULT, (2,))):
        for k in ks:
            out.append(AigVariant(world, Kop, k, disp[Kop]))
    if only:
        out = [v for v in out if any(o in v.name for o in only)]
    return out


# ---------------------------------------------------------------------------
# conjunctive_partition / disjunctive_partition: the work-list loop under a loop contract
# ---------------------------------------------------------------------------
class PartitionVariant(Variant):
    """Loop invariant at an arbitrary iteration (work list = an untouched prefix + its top entry; `seen` an arbitrary set):
         C20  every node expanded or yielded so far is in `seen`  -- so a node is expanded / yielded at most once: the
              loop acts on a node only when it is not in `seen`
         C10  (conjunctive)  formula  =>  every yielded node and every work-list entry holds
              (disjunctive)  every yielded node / work-list entry  =>  formula
       under one arbitrary interpretation (the `val` vocabulary).  The converse direction (nothing is lost) needs an
       induction over the height of the nodes in `seen` and stays with the bounded stand-in."""
    prop_ids = ("C10", "C20")
    bounded = "arity"

    def __init__(self, world, which):
        self.world, self.which = world, which
        self.qualname = "pysmt.rewritings.%s_partition" % which
        self.name = "partition:%s" % which
        self.Kop = S.AND if which == "conjunctive" else S.OR
        self.max_arity = 3

    def holds(self, n):
        return S.val(n) == S.VBool(True)

    def setup(self, ex):
        from pyvc.loops import LoopInvariant
        from pyvc.symex import SetVal, PrefList, Builtin
        from pyvc import builtins_impl as BI
        W = self.world
        core.make_env(ex, W)
        f = z3.Const("formula", Node)
        W.touch(ex, f)
        ex.assume(S.type_of(f) == S.BoolT)
        self.formula = f
        g = ex.ghost
        NodeSet = z3.SetSort(Node)
        g["acted"] = z3.EmptySet(Node)           # nodes expanded or yielded so far
        g["yielded_ok"] = z3.BoolVal(True)       # conjunctive: conj of the yielded values; disjunctive: disj
        g["acted_twice"] = []
        v = self
        conj = self.which == "conjunctive"

        def fold(vals):
            vals = list(vals)
            if conj:
                return z3.And(vals) if vals else z3.BoolVal(True)
            return z3.Or(vals) if vals else z3.BoolVal(False)
        g["yielded_ok"] = fold([])

        def act(exx, n):
            gg = exx.ghost
            exx.oblige("C20:acts-on-a-node-at-most-once", z3.Not(z3.IsMember(n, gg["acted"])))
            gg["acted"] = z3.SetAdd(gg["acted"], n)

        def on_yield(val):
            exx = ex
            if not is_node(val):
                exx.oblige("yields-formulas", z3.BoolVal(False))
                return
            act(exx, val)
            exx.oblige("C10:yields-no-%s" % ("conjunction" if conj else "disjunction"), S.op(val) != v.Kop)
            exx.ghost["yielded_ok"] = fold([exx.ghost["yielded_ok"], v.holds(val)])
        self.on_yield = on_yield

        # the roles of the locals are read from the loop: the work list is what the loop condition tests, `seen` is the
        # set membership is asked of, the current node is what the body assigns
        from pyvc import loops as L
        ln = L.loop_node(W.repo, self.qualname, 0)
        WL = (L.test_names(ln) or ["to_process"])[0]
        SEEN = (L.membership_names(ln) or ["seen"])[0]
        CUR = [n for n in L.stored_names(ln) if n not in (WL, SEEN)]

        def pending(exx, fr):
            tp = fr.locs[WL]
            if isinstance(tp, PrefList):
                return fold([exx.ghost["rest_ok"]] + [v.holds(x) for x in tp.items])
            return fold([v.holds(x) for x in tp])

        def seen_z3(exx, fr):
            return BI.set_to_z3(W, exx, fr.locs[SEEN], Node)

        def havoc(exx, fr):
            gg = exx.ghost
            gg["acted"] = exx.fresh("acted_so_far", NodeSet)
            gg["yielded_ok"] = exx.fresh("yielded_so_far", B)
            gg["rest_ok"] = exx.fresh("rest_of_the_work_list", B)
            fr.locs[SEEN] = SetVal(zextra=[exx.fresh("seen_so_far", NodeSet)])
            if exx.decide(exx.fresh("work_left", B)):
                top = exx.fresh("top_entry", Node)
                W.touch(exx, top)
                n = exx.fresh("entries_below", S.I)
                exx.assume(n >= 0)
                fr.locs[WL] = PrefList(n, [top])
            else:
                fr.locs[WL] = []
            for nm in CUR:
                fr.locs.pop(nm, None)

        def inv(exx, fr):
            gg = exx.ghost
            both = fold([gg["yielded_ok"], pending(exx, fr)])
            sem = z3.Implies(v.holds(f), both) if conj else z3.Implies(both, v.holds(f))
            return [("C20:acted-nodes-are-remembered", z3.IsSubset(gg["acted"], seen_z3(exx, fr))),
                    ("C10:%s" % ("formula-implies-yielded-and-pending" if conj else "yielded-and-pending-imply-formula"), sem)]
        W.loop_contracts[(self.qualname, 0)] = LoopInvariant(havoc, inv, name="worklist")

        # expansion of a node = asking for its children
        real_args = W.repo.method("pysmt.fnode.FNode", "args")

        class Args(Contract):
            qualname = "pysmt.fnode.FNode.args"

            def apply(self, exx, a, kw):
                act(exx, a[0])
                return exx.run_function(W.wrap_func(real_args, real_args.module, bound=a[0], owner="pysmt.fnode.FNode"), [], {})
        c = Args()
        c.world = W
        W.contracts[c.qualname] = c
        fi = W.repo.func(self.qualname)
        real = W.wrap_func(fi, fi.module)

        def run(exx, a, kw):
            gen = exx.call(real, [f], {})
            exx.drive(gen, on_yield)
            return None
        return Builtin("drive:" + self.qualname, run), [], {}

    def check(self, ex, outcome):
        kind, r = outcome
        if kind == "raise":
            return [("no-exception", z3.BoolVal(False))]
        g = ex.ghost
        conj = self.which == "conjunctive"
        goals = [("loop-contract-used", z3.BoolVal(g.get("loop_contracts_used", 0) >= 1))]
        # after the loop: the work list is empty
        sem = z3.Implies(self.holds(self.formula), g["yielded_ok"]) if conj else z3.Implies(g["yielded_ok"], self.holds(self.formula))
        goals.append(("C10:%s" % ("every-conjunct-follows-from-the-formula" if conj else "every-disjunct-implies-the-formula"), sem))
        return goals


from pyvc.world import Contract
_base_variants10 = variants


def variants(world, tier="quick", only=None):
    out = _base_variants10(world, tier, None)
    out += [PartitionVariant(world, "conjunctive"), PartitionVariant(world, "disjunctive")]
    if only:
        out = [v for v in out if any(o in v.name for o in only)]
    return out


# ---------------------------------------------------------------------------
# TimesDistributor: the three callbacks (products of sums expanded, sums kept flat, minus as plus of -1 * ...)
# ---------------------------------------------------------------------------
class TimesDistVariant(Variant):
    """callback of TimesDistributor on a node f with operator K, given for each child a rewritten argument of the same type
    and value whose shape is `shape[i]`: 0 = not a sum, m >= 2 = a sum of m terms.  The result has the type and, under
    every interpretation, the value of f; a product returned by walk_times has no sum among its factors."""
    prop_ids = ("C10",)
    bounded = "arity"

    def __init__(self, world, Kop, shape, real):
        self.world, self.Kop, self.shape, self.real = world, Kop, tuple(shape), real
        self.qualname = "pysmt.rewritings.TimesDistributor." + {S.TIMES: "walk_times", S.PLUS: "walk_plus", S.MINUS: "walk_minus"}[Kop]
        self.name = "distribute:%s[%s/%s]" % (S.OPNAMES[Kop], ",".join(str(s) for s in shape), "Real" if real else "Int")
        self.max_arity = 9

    def setup(self, ex):
        W = self.world
        env = core.make_env(ex, W)
        mgr = env.fields["_formula_manager"]
        T = S.RealT if self.real else S.IntT
        f = z3.Const("formula", Node)
        self.formula = f
        k = len(self.shape)
        ex.assume(S.op(f) == self.Kop)
        W.learn(ex, f, op=self.Kop, k=k)
        ex.assume(S.type_of(f) == T)
        self.args = []
        for i, m in enumerate(self.shape):
            c = S.arg(f, S.K(i))
            W.touch(ex, c)
            a = z3.Const("rewritten%d" % i, Node)
            W.touch(ex, a)
            ex.assume(S.type_of(a) == T)
            ex.assume(S.type_of(c) == T)
            ex.assume(S.val(a) == S.val(c))
            if m:
                ex.assume(S.op(a) == S.PLUS)
                W.learn(ex, a, op=S.PLUS, k=m)
                for j in range(m):
                    ex.assume(S.op(S.arg(a, S.K(j))) != S.PLUS)      # the rewritten sums are flat (what walk_plus / walk_minus establish)
            else:
                ex.assume(S.op(a) != S.PLUS)
            self.args.append(a)
        one = lambda nm, Kc, val: W.new_node(ex, Kc, [], [val], check=False)
        self.w = Obj("pysmt.rewritings.TimesDistributor",
                     {"env": env, "mgr": mgr, "memoization": DictVal(), "stack": [],
                      "Times": W.getattr(ex, mgr, "Times"), "Plus": W.getattr(ex, mgr, "Plus"),
                      "rminus_one": one("rm1", S.REAL_CONSTANT, z3.RealVal(-1)), "iminus_one": one("im1", S.INT_CONSTANT, z3.IntVal(-1)),
                      "get_type": W.getattr(ex, env.fields["_stc"], "get_type")}, tag="distributor")
        fi = W.repo.func(self.qualname)
        return W.wrap_func(fi, fi.module, bound=self.w), [f], {"args": list(self.args)}

    def check(self, ex, outcome):
        kind, r = outcome
        if kind == "raise":
            return [("no-exception", z3.BoolVal(False))]
        if not is_node(r):
            return [("returns-node", z3.BoolVal(False))]
        W = self.world
        W.touch(ex, r)
        if self.Kop == S.TIMES and any(self.shape):
            # lemma (pure arithmetic, proved as an obligation of its own before it is used): the product of the sums is
            # the sum of the products over every choice of one term per factor
            import itertools
            acc = (lambda n: S.Val.vr(S.val(n))) if self.real else (lambda n: S.Val.vi(S.val(n)))
            terms = [[acc(S.arg(a, S.K(j))) for j in range(m)] if m else [acc(a)] for a, m in zip(self.args, self.shape)]
            prod = lambda xs: z3.Product(xs) if len(xs) > 1 else xs[0]
            lhs = prod([z3.Sum(t) if len(t) > 1 else t[0] for t in terms])
            rhs = z3.Sum([prod(list(c)) for c in itertools.product(*terms)])
            L = lhs == rhs
            ex.oblige("lemma:product-of-sums-is-the-sum-of-products", L)
            ex.assume(L)
        goals = [("same-type", S.type_of(r) == S.type_of(self.formula)), ("equivalent", S.val(r) == S.val(self.formula))]
        info = ex.ghost.get("nodeinfo", {}).get(r.get_id())
        if self.Kop == S.TIMES and info and info.get("op") == S.TIMES and info.get("k") is not None:
            goals.append(("product-has-no-sum-among-its-factors", z3.And([S.op(S.arg(r, S.K(i))) != S.PLUS for i in range(info["k"])])))
        if self.Kop in (S.PLUS, S.MINUS) and info and info.get("op") == S.PLUS and info.get("k") is not None:
            # the sum stays flat (the given sums are flat: setup)
            goals.append(("sum-kept-flat", z3.And([S.op(S.arg(r, S.K(i))) != S.PLUS for i in range(info["k"])])))
        return goals

    def witness(self, model, ex):
        from pyvc.concretize import node_to_json
        return {"formula": node_to_json(model, self.formula, 3)}


_base_variants10b = variants


def variants(world, tier="quick", only=None):
    out = _base_variants10b(world, tier, None)
    for real in (False, True):
        for shape in ((0, 0), (2, 0), (0, 2), (2, 2), (3, 0), (2, 3), (0, 0, 0), (2, 0, 2)) + (((3, 2), (0, 3), (0, 2, 0)) if tier == "thorough" else ()):
            out.append(TimesDistVariant(world, S.TIMES, shape, real))
        for shape in ((0, 0), (2, 0), (0, 3), (2, 2), (0, 2, 0)):
            out.append(TimesDistVariant(world, S.PLUS, shape, real))
        for shape in ((0, 0), (2, 0), (0, 2), (3, 2)):
            out.append(TimesDistVariant(world, S.MINUS, shape, real))
    if only:
        out = [v for v in out if any(o in v.name for o in only)]
    return out


# ---------------------------------------------------------------------------
# PrenexNormalizer: the prefix list (innermost first) of walk_quantifier, walk_not and normalize
# ---------------------------------------------------------------------------
PRENEX = "pysmt.rewritings.PrenexNormalizer"


class PrenexPrefixVariant(Variant):
    """The walker returns (L, m): the formula is equivalent to  fold(L, m) = Qn Vn. ... Q1 V1. m  with L = [(Q1,V1),...,(Qn,Vn)]
    innermost first (class comment; normalize() folds in exactly this order - checked).  Structural obligations that follow
    from the definition of fold, for an inner prefix of 0-2 blocks:
      walk_quantifier   Q V. body  with body = fold(L, m)  is  fold(L + [(Q, V')], m), V' = V minus the variables re-bound in L
                        (vacuous when empty: L itself) - the new block goes OUTSIDE, i.e. LAST
      walk_not          not fold(L, m) = fold(L with every quantifier dualised, not m), same order, same variables
      normalize         returns Qn(Vn, ... Q1(V1, m))"""
    prop_ids = ("C10",)
    bounded = "arity"

    def __init__(self, world, method, inner, Kop=None, nvars=1):
        self.world, self.method, self.inner, self.Kop, self.nvars = world, method, tuple(inner), Kop, nvars
        self.qualname = PRENEX + "." + method
        self.name = "prenex:%s[%s%s]" % (method, "".join("E" if q else "A" for q in inner) or "-",
                                         "" if Kop is None else "/%s %d" % (S.OPNAMES[Kop], nvars))
        self.max_arity = 3

    def qname(self, q):
        """'Exists' / 'ForAll' of a bound constructor value"""
        return getattr(getattr(q, "fi", None), "name", None)

    def setup(self, ex):
        from pyvc.symex import SetVal
        W = self.world
        env = core.make_env(ex, W)
        mgr = env.fields["_formula_manager"]
        self.mgr = mgr
        self.w = Obj(PRENEX, {"env": env, "mgr": mgr, "memoization": DictVal(), "stack": []}, tag="prenex")
        self.m = z3.Const("matrix", Node)
        W.touch(ex, self.m)
        ex.assume(S.type_of(self.m) == S.BoolT)
        self.ivars = [z3.Const("inner_var%d" % i, Node) for i in range(len(self.inner))]
        for x in self.ivars:
            W.touch(ex, x)
            ex.assume(S.op(x) == S.SYMBOL)
        if len(self.ivars) > 1:
            ex.assume(z3.Distinct(self.ivars))
        self.L = [(W.getattr(ex, mgr, "Exists" if isex else "ForAll"), SetVal([x])) for isex, x in zip(self.inner, self.ivars)]
        fi = W.repo.method(PRENEX, self.method)
        fn = W.wrap_func(fi, fi.module, bound=self.w)
        if self.method == "walk_quantifier":
            f = z3.Const("formula", Node)
            W.touch(ex, f)
            ex.assume(S.op(f) == self.Kop)
            W.learn(ex, f, op=self.Kop, k=1)
            ex.assume(S.nqv(f) == self.nvars)
            self.f = f
            self.qv = [S.qv(f, S.K(i)) for i in range(self.nvars)]
            for x in self.qv:
                W.touch(ex, x)
            if self.nvars > 1:
                ex.assume(z3.Distinct(self.qv))
            self.passed = list(self.L)
            return fn, [f], {"args": [(self.passed, self.m)]}
        if self.method == "walk_not":
            f = z3.Const("formula", Node)
            W.touch(ex, f)
            ex.assume(S.op(f) == S.NOT)
            W.learn(ex, f, op=S.NOT, k=1)
            self.f = f
            self.passed = list(self.L)
            return fn, [f], {"args": [(self.passed, self.m)]}
        raise KeyError(self.method)

    def set_items(self, ex, s):
        return list(BI.iterate(self.world, ex, s))

    def check(self, ex, outcome):
        from pyvc import builtins_impl as BI_
        kind, r = outcome
        if kind == "raise":
            return [("no-exception", z3.BoolVal(False))]
        if not (isinstance(r, tuple) and len(r) == 2 and isinstance(r[0], list)):
            return [("returns-prefix-and-matrix", z3.BoolVal(False))]
        W = self.world
        L, m = r
        # the prefix list handed in is the memoised result of the body (shared by every other occurrence of that body): the
        # callback builds a new list and leaves this one as it is
        untouched = len(self.passed) == len(self.L) and all(a is b for a, b in zip(self.passed, self.L))
        goals = [("memoised-prefix-of-the-body-not-modified", z3.BoolVal(bool(untouched)))]
        if self.method == "walk_not":
            if is_node(m):
                W.touch(ex, m)
                goals.append(("matrix-is-the-negation-of-the-matrix", S.val(m) == S.VBool(z3.Not(S.vb(S.val(self.m))))))
            else:
                goals.append(("matrix-is-the-negation-of-the-matrix", z3.BoolVal(False)))
            ok = len(L) == len(self.L)
            goals.append(("same-number-of-blocks", z3.BoolVal(ok)))
            for i, ((q, vs), (q0, vs0), isex) in enumerate(zip(L, self.L, self.inner)):
                goals.append(("block-%d-dualised" % i, z3.BoolVal(self.qname(q) == ("ForAll" if isex else "Exists"))))
                a, b = BI_.iterate(W, ex, vs), BI_.iterate(W, ex, vs0)
                goals.append(("block-%d-same-variables" % i, z3.And([x == y for x, y in zip(a, b)]) if len(a) == len(b) else z3.BoolVal(False)))
            return goals
        # walk_quantifier
        goals.append(("matrix-unchanged", (m == self.m) if is_node(m) else z3.BoolVal(False)))
        # V' = the formula's variables that no inner block binds again
        rebinds = lambda x: z3.Or([x == y for y in self.ivars]) if self.ivars else z3.BoolVal(False)
        n_inner = len(self.L)
        same_prefix = len(L) >= n_inner and all(self.qname(L[i][0]) == self.qname(self.L[i][0]) for i in range(n_inner))
        goals.append(("inner-blocks-kept-in-place-innermost-first", z3.BoolVal(bool(same_prefix))))
        if same_prefix:
            for i in range(n_inner):
                a, b = BI_.iterate(W, ex, L[i][1]), BI_.iterate(W, ex, self.L[i][1])
                goals.append(("inner-block-%d-same-variables" % i, z3.And([x == y for x, y in zip(a, b)]) if len(a) == len(b) else z3.BoolVal(False)))
        innerset = z3.EmptySet(Node)
        for y in self.ivars:
            innerset = z3.SetAdd(innerset, y)
        all_rebound = z3.IsSubset(S.qvset(self.f), innerset)
        if len(L) == n_inner:
            goals.append(("block-dropped-only-when-vacuous", all_rebound))
        elif len(L) == n_inner + 1:
            q, vs = L[-1]
            goals.append(("new-block-is-outermost-and-of-the-formula's-kind", z3.BoolVal(self.qname(q) == ("Exists" if self.Kop == S.EXISTS else "ForAll"))))
            got = BI_.set_to_z3(W, ex, vs, Node)
            goals.append(("binds-exactly-the-variables-not-bound-again-inside", got == z3.SetDifference(S.qvset(self.f), innerset)))
            goals.append(("block-not-vacuous", z3.Not(all_rebound)))
        else:
            goals.append(("at-most-one-new-block", z3.BoolVal(False)))
        return goals


class PrenexNormalizeVariant(Variant):
    """normalize(): folds the prefix returned by the walk innermost first - Qn(Vn, ... Q1(V1, m))"""
    prop_ids = ("C10",)
    qualname = PRENEX + ".normalize"

    def __init__(self, world, inner):
        self.world, self.inner = world, tuple(inner)
        self.name = "prenex:normalize[%s]" % ("".join("E" if q else "A" for q in inner) or "-")

    def setup(self, ex):
        W = self.world
        env = core.make_env(ex, W)
        self.m = z3.Const("matrix", Node)
        W.touch(ex, self.m)
        self.calls = []
        v = self

        def mkq(nm):
            def q(exx, a, kw):
                r = exx.fresh("quantified", Node)
                W.touch(exx, r)
                v.calls.append((nm, a[0], a[1], r))
                return r
            return Builtin(nm, q)
        self.vars = ["V%d" % i for i in range(len(self.inner))]
        L = [(mkq("Exists" if isex else "ForAll"), vs) for isex, vs in zip(self.inner, self.vars)]
        self.w = Obj(PRENEX, {"env": env, "mgr": env.fields["_formula_manager"], "memoization": DictVal(), "stack": []}, tag="prenex")
        self.w.fields["walk"] = Builtin("walk", lambda exx, a, kw: (list(L), v.m))
        fi = W.repo.method(PRENEX, "normalize")
        return W.wrap_func(fi, fi.module, bound=self.w), [z3.Const("formula", Node)], {}

    def check(self, ex, outcome):
        kind, r = outcome
        if kind == "raise":
            return [("no-exception", z3.BoolVal(False))]
        goals = [("one-quantifier-per-block", z3.BoolVal(len(self.calls) == len(self.inner)))]
        cur = self.m
        for i, (c, isex, vs) in enumerate(zip(self.calls, self.inner, self.vars)):
            nm, gv, body, res = c
            goals.append(("block-%d-applied-in-order-innermost-first" % i, z3.BoolVal(nm == ("Exists" if isex else "ForAll") and gv == vs)))
            goals.append(("block-%d-over-the-formula-built-so-far" % i, (body == cur) if is_node(body) else z3.BoolVal(False)))
            cur = res
        goals.append(("returns-the-outermost", (r == cur) if is_node(r) else z3.BoolVal(False)))
        return goals


from pyvc.symex import Builtin
from pyvc import builtins_impl as BI
_base_variants10c = variants


def variants(world, tier="quick", only=None):
    out = _base_variants10c(world, tier, None)
    for inner in ((), (True,), (False,), (True, False), (False, True)):
        for Kop in (S.FORALL, S.EXISTS):
            for nv in (1, 2):
                out.append(PrenexPrefixVariant(world, "walk_quantifier", inner, Kop, nv))
        out.append(PrenexPrefixVariant(world, "walk_not", inner))
        out.append(PrenexNormalizeVariant(world, inner))
    if only:
        out = [v for v in out if any(o in v.name for o in only)]
    return out


class NnfNegatedQuantifierVariant(Variant):
    """NNFizer on  not (Q V. b): _get_children asks for the negation of the body, and the callback returns the DUAL quantifier
    over the same variables and the rewritten negated body  (not forall V. b = exists V. not b; not exists V. b = forall V. not b).
    Also Q V. b in positive position: the same quantifier over the rewritten body."""
    prop_ids = ("C10",)

    def __init__(self, world, Kop, negated):
        self.world, self.Kop, self.negated = world, Kop, negated
        self.qualname = "pysmt.rewritings.NNFizer." + ("walk_not" if negated else ("walk_forall" if Kop == S.FORALL else "walk_exists"))
        self.name = "nnf:%s%s-quantifier" % ("negated-" if negated else "", S.OPNAMES[Kop])

    def setup(self, ex):
        W = self.world
        env = core.make_env(ex, W)
        q = z3.Const("quantified", Node)
        W.touch(ex, q)
        ex.assume(S.op(q) == self.Kop)
        W.learn(ex, q, op=self.Kop, k=1)
        self.q = q
        self.body = S.arg(q, S.K(0))
        ex.assume(z3.And(S.type_of(q) == S.BoolT, S.qv_ok(q), S.nqv(q) >= 1, S.type_of(self.body) == S.BoolT))      # a well-formed quantifier
        mgr = env.fields["_formula_manager"]
        if self.negated:
            f = ex.call(W.getattr(ex, mgr, "Not"), [q], {})
        else:
            f = q
        self.f = f
        self.w = Obj("pysmt.rewritings.NNFizer", {"env": env, "mgr": mgr, "memoization": DictVal(), "stack": []}, tag="nnfizer")
        v = self

        def run(exx, a_, kw_):
            fi = W.repo.method("pysmt.rewritings.NNFizer", "_get_children")
            kids = BI.iterate(W, exx, exx.call(W.wrap_func(fi, fi.module, bound=v.w), [f], {}))
            v.kids = kids
            v.a = z3.Const("nnf_of_child", Node)
            W.touch(exx, v.a)
            exx.assume(S.type_of(v.a) == S.BoolT)          # the rewritten child is a formula
            # term model: a quantifier node over the same tuple of variables has the same variable count and the same
            # 'all variables are symbols' flag (both are functions of the payload)
            for Kq in (S.FORALL, S.EXISTS):
                m_ = W.mk_term(Kq, [v.a], W.payload_terms(v.Kop, q))
                exx.assume(z3.And(S.nqv(m_) == S.nqv(q), S.qv_ok(m_) == S.qv_ok(q), S.qvset(m_) == S.qvset(q)))
            fi2 = W.repo.method("pysmt.rewritings.NNFizer", v.qualname.rsplit(".", 1)[1])
            return exx.call(W.wrap_func(fi2, fi2.module, bound=v.w), [f], {"args": [v.a]})
        return Builtin("children+callback:" + self.qualname, run), [], {}

    def check(self, ex, outcome):
        kind, r = outcome
        if kind == "raise":
            return [("no-exception", z3.BoolVal(False))]
        if not is_node(r):
            return [("returns-node", z3.BoolVal(False))]
        W = self.world
        W.touch(ex, r)
        goals = [("one-child", z3.BoolVal(len(self.kids) == 1))]
        if len(self.kids) == 1:
            c = self.kids[0]
            W.touch(ex, c)
            if self.negated:
                goals.append(("child-is-the-negated-body", S.val(c) == S.VBool(z3.Not(S.vb(S.val(self.body))))))
            else:
                goals.append(("child-is-the-body", c == self.body))
        dual = {S.FORALL: S.EXISTS, S.EXISTS: S.FORALL}[self.Kop] if self.negated else self.Kop
        goals.append(("%s-quantifier" % ("dual" if self.negated else "same"), S.op(r) == dual))
        goals.append(("over-the-same-variables", S.qvset(r) == S.qvset(self.q)))
        goals.append(("over-the-rewritten-child", S.arg(r, S.K(0)) == self.a))
        return goals


_base_variants10d = variants


def variants(world, tier="quick", only=None):
    out = _base_variants10d(world, tier, None)
    for Kop in (S.FORALL, S.EXISTS):
        for neg in (True, False):
            out.append(NnfNegatedQuantifierVariant(world, Kop, neg))
    if only:
        out = [v for v in out if any(o in v.name for o in only)]
    return out
