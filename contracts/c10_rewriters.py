"""C10: normal-form rewriters and Boolean quantifier elimination.

Symbolic part (pyvc): the connective cases of NNFizer (children pre-negated by
_get_children, rebuilt by the callbacks), every AIGer callback.
Bounded part (native/bounded_more.py: rewriters): prenex (alpha-renaming loops),
TimesDistributor, partitions, propagate_toplevel, both QE procedures, and the
quantifier cases of NNF/AIG - generated formulas evaluated exactly."""
import z3

from pyvc import sorts as S
from pyvc.sorts import Node, Ty, B
from pyvc.symex import Obj, DictVal, is_node, is_z3
from pyvc.harness import Variant
from . import core

DEADLINE = {"quick": 200, "thorough": 900}
REPLAY_KIND = "rewriter"
CONNECTIVES = (S.AND, S.OR, S.NOT, S.IMPLIES, S.IFF, S.FORALL, S.EXISTS)


def is_atom(n):
    """not a Boolean connective / quantifier / Boolean ITE"""
    return z3.And(*[S.op(n) != k for k in CONNECTIVES], z3.Not(z3.And(S.op(n) == S.ITE, S.type_of(n) == S.BoolT)))


isnnf = z3.Function("isnnf", Node, B)      # negations only on atoms, no implies/iff/Boolean-ite
isaig = z3.Function("isaig", Node, B)      # only and / not above atoms


def shape_facts(ex, world, pred, which):
    """definition of the shape predicate at every node whose operator is known on this path"""
    for info in list(ex.ghost.get("nodeinfo", {}).values()):
        t, Kop, k = info["t"], info["op"], info["k"]
        if Kop is None or k is None:
            continue
        kids = [S.arg(t, S.K(i)) for i in range(k)]
        if which == "nnf":
            if Kop in (S.AND, S.OR):
                ex.assume(pred(t) == z3.And([pred(c) for c in kids]))
            elif Kop == S.NOT:
                ex.assume(pred(t) == is_atom(kids[0]))
            elif Kop in (S.IMPLIES, S.IFF):
                ex.assume(pred(t) == False)
            elif Kop in S.QUANT_OPS:
                ex.assume(pred(t) == pred(kids[0]))
            elif Kop == S.ITE:
                ex.assume(z3.Implies(S.type_of(t) == S.BoolT, pred(t) == False))
                ex.assume(z3.Implies(S.type_of(t) != S.BoolT, pred(t)))
            else:
                ex.assume(pred(t))
        else:
            if Kop == S.AND:
                ex.assume(pred(t) == z3.And([pred(c) for c in kids]))
            elif Kop == S.NOT:
                ex.assume(pred(t) == pred(kids[0]))
            elif Kop in (S.OR, S.IMPLIES, S.IFF):
                ex.assume(pred(t) == False)
            elif Kop in S.QUANT_OPS:
                ex.assume(pred(t) == pred(kids[0]))
            elif Kop == S.ITE:
                ex.assume(z3.Implies(S.type_of(t) == S.BoolT, pred(t) == False))
                ex.assume(z3.Implies(S.type_of(t) != S.BoolT, pred(t)))
            else:
                ex.assume(pred(t))


class NnfVariant(Variant):
    """NNFizer: (_get_children, callback) pair for a formula f with top operator K (and, when K is
    Not, inner operator J): given NNF results equivalent to the children _get_children lists,
    the callback returns an NNF formula equivalent to f."""
    prop_ids = ("C10",)
    bounded = "arity"

    def __init__(self, world, Kop, k, Jop=None, j=None):
        self.world, self.Kop, self.k, self.Jop, self.j = world, Kop, k, Jop, j
        self.qualname = "pysmt.rewritings.NNFizer." + {S.NOT: "walk_not", S.AND: "walk_and", S.OR: "walk_or", S.IMPLIES: "walk_implies",
                                                        S.IFF: "walk_iff", S.ITE: "walk_ite"}[Kop]
        self.name = "nnf:%s/%d%s" % (S.OPNAMES[Kop], k, "" if Jop is None else "(%s/%d)" % (S.OPNAMES[Jop], j))

    def setup(self, ex):
        W = self.world
        env = core.make_env(ex, W)
        f = z3.Const("formula", Node)
        self.formula = f
        ex.assume(S.op(f) == self.Kop)
        W.learn(ex, f, op=self.Kop, k=self.k)
        ex.assume(S.type_of(f) == S.BoolT)
        if self.Jop is not None:
            s = S.arg(f, S.K(0))
            ex.assume(S.op(s) == self.Jop)
            W.learn(ex, s, op=self.Jop, k=self.j)
        elif self.Kop == S.NOT:
            s = S.arg(f, S.K(0))
            ex.assume(is_atom(s))                      # negated atom
        self.w = Obj("pysmt.rewritings.NNFizer", {"env": env, "mgr": env.fields["_formula_manager"], "memoization": DictVal(),
                                                 "stack": []}, tag="nnfizer")
        # children as the real _get_children lists them
        fi = W.repo.method("pysmt.rewritings.NNFizer", "_get_children")
        kids = ex.call(W.wrap_func(fi, fi.module, bound=self.w), [f], {})
        from pyvc import builtins_impl as BI
        self.kids = BI.iterate(W, ex, kids)
        self.args = []
        for i, c in enumerate(self.kids):
            W.touch(ex, c)
            a = z3.Const("nnf%d" % i, Node)
            W.touch(ex, a)
            ex.assume(S.type_of(a) == S.BoolT)
            ex.assume(S.type_of(c) == S.BoolT)
            ex.assume(S.val(a) == S.val(c))
            ex.assume(isnnf(a))
            ex.assume(z3.Implies(is_atom(c), a == c))     # atoms are returned unchanged (nnf:atom[*] below)
            self.args.append(a)
        fi = W.repo.func(self.qualname)
        return W.wrap_func(fi, fi.module, bound=self.w), [f], {"args": list(self.args)}

    def check(self, ex, outcome):
        kind, r = outcome
        if kind == "raise":
            return [("no-exception", z3.BoolVal(False))]
        if not is_node(r):
            return [("returns-node", z3.BoolVal(False))]
        self.world.touch(ex, r)
        shape_facts(ex, self.world, isnnf, "nnf")
        return [("equivalent", S.val(r) == S.val(self.formula)), ("negation-normal-form", isnnf(r))]

    def witness(self, model, ex):
        from pyvc.concretize import node_to_json
        return {"formula": node_to_json(model, self.formula, 3)}


class NnfAtomVariant(Variant):
    """Bool-typed atoms (symbols, constants, relations, applications) are returned unchanged"""
    prop_ids = ("C10",)

    def __init__(self, world, Kop, k, target):
        self.world, self.Kop, self.k = world, Kop, k
        self.qualname = target
        self.name = "nnf:atom[%s]" % S.OPNAMES[Kop]

    def setup(self, ex):
        W = self.world
        env = core.make_env(ex, W)
        f = z3.Const("formula", Node)
        self.formula = f
        ex.assume(S.op(f) == self.Kop)
        W.learn(ex, f, op=self.Kop, k=self.k)
        w = Obj("pysmt.rewritings.NNFizer", {"env": env, "mgr": env.fields["_formula_manager"], "memoization": DictVal(), "stack": []})
        fi = W.repo.func(self.qualname)
        return W.wrap_func(fi, fi.module, bound=w), [f], {"args": [None] * self.k}

    def check(self, ex, outcome):
        kind, r = outcome
        if kind == "raise":
            return [("no-exception", z3.BoolVal(False))]
        if r is None:
            return [("non-boolean-term-gives-None", S.type_of(self.formula) != S.BoolT)]
        return [("atom-unchanged", r == self.formula)]


class AigVariant(Variant):
    prop_ids = ("C10",)

    def __init__(self, world, Kop, k, target):
        self.world, self.Kop, self.k = world, Kop, k
        self.qualname = target
        self.name = "aig:%s[%s/%d]" % (target.rsplit(".", 1)[1], S.OPNAMES[Kop], k)
        if Kop in (S.AND, S.OR):
            self.bounded = "arity"

    def setup(self, ex):
        W = self.world
        env = core.make_env(ex, W)
        f = z3.Const("formula", Node)
        self.formula = f
        ex.assume(S.op(f) == self.Kop)
        W.learn(ex, f, op=self.Kop, k=self.k)
        self.args = []
        for i in range(self.k):
            c = S.arg(f, S.K(i))
            a = z3.Const("aig%d" % i, Node)
            W.touch(ex, a)
            ex.assume(S.type_of(a) == S.type_of(c))
            ex.assume(S.val(a) == S.val(c))
            ex.assume(isaig(a))
            self.args.append(a)
        w = Obj("pysmt.rewritings.AIGer", {"env": env, "mgr": env.fields["_formula_manager"], "memoization": DictVal(), "stack": []})
        fi = W.repo.func(self.qualname)
        return W.wrap_func(fi, fi.module, bound=w), [f], {"args": list(self.args)}

    def check(self, ex, outcome):
        kind, r = outcome
        if kind == "raise":
            return [("no-exception", z3.BoolVal(False))]
        self.world.touch(ex, r)
        shape_facts(ex, self.world, isaig, "aig")
        goals = [("equivalent", S.val(r) == S.val(self.formula))]
        if self.Kop in (S.AND, S.OR, S.NOT, S.IMPLIES, S.IFF):
            goals.append(("and-inverter-form", isaig(r)))
        elif self.Kop == S.ITE:
            goals.append(("and-inverter-form", z3.Implies(S.type_of(self.formula) == S.BoolT, isaig(r))))
        return goals


def extras(prop, tier, seed):
    if prop != "C10":
        return []
    from pyvc.report import run_bounded
    return [run_bounded("rewriters", tier, seed, timeout=3000)]


def variants(world, tier="quick", only=None):
    out = []
    for Kop, ks in ((S.AND, (2, 3)), (S.OR, (2, 3)), (S.IMPLIES, (2,)), (S.IFF, (2,)), (S.ITE, (3,))):
        for k in ks:
            out.append(NnfVariant(world, Kop, k))
    out.append(NnfVariant(world, S.NOT, 1))
    for Jop, js in ((S.NOT, (1,)), (S.AND, (2, 3)), (S.OR, (2, 3)), (S.IMPLIES, (2,)), (S.IFF, (2,)), (S.ITE, (3,))):
        for j in js:
            out.append(NnfVariant(world, S.NOT, 1, Jop, j))
    dn = world.repo.dispatch("pysmt.rewritings.NNFizer")
    for Kop, k in ((S.SYMBOL, 0), (S.BOOL_CONSTANT, 0), (S.LE, 2), (S.EQUALS, 2), (S.BV_ULT, 2), (S.STR_CONTAINS, 2),
                   (S.FUNCTION, 1), (S.INT_CONSTANT, 0)):
        out.append(NnfAtomVariant(world, Kop, k, dn[Kop]))
    disp = world.repo.dispatch("pysmt.rewritings.AIGer")
    for Kop, ks in ((S.AND, (2, 3)), (S.OR, (2, 3)), (S.NOT, (1,)), (S.IMPLIES, (2,)), (S.IFF, (2,)), (S.ITE, (3,)),
                    (S.SYMBOL, (0,)), (S.LE, (2,)), (S.BOOL_CONSTANT, (0,)), (S.EQUALS, (2,)), (S.BV_ULT, (2,))):
        for k in ks:
            out.append(AigVariant(world, Kop, k, disp[Kop]))
    if only:
        out = [v for v in out if any(o in v.name for o in only)]
    return out
