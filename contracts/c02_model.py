"""C02: EagerModel / Model evaluation on top of the contracts of substitution (C05)
and simplification (C01 + ground completeness).

The fixed interpretation of the specification is taken to be the (completed)
model itself: every assigned symbol has the value of its constant, every other
free symbol of the formula its documented default.  The result must then be THE
constant whose value is the formula's value."""
import z3

from pyvc import sorts as S
from pyvc import spec
from pyvc.sorts import Node, Ty, B
from pyvc.symex import Obj, DictVal, Builtin, is_node, is_z3, PyRaise, ExcVal
from pyvc.harness import Variant
from pyvc.world import Contract
from . import core

DEADLINE = {"quick": 200, "thorough": 600}
REPLAY_KIND = "model"
EM = "pysmt.solvers.eager.EagerModel"

groundable = z3.Function("groundable", Node, B)   # quantifier-free, UF-free, no division by zero evaluated


class SubstituteSummary(Contract):
    """Substituter.substitute(formula, subs) for symbol keys mapped to constants of equal value:
    value and type preserved, exactly the substituted symbols disappear (C05; replacing
    equals by equals is the instance of the substitution lemma used here)."""
    qualname = "pysmt.substituter.MGSubstituter::substitute"

    def apply(self, ex, a, kw):
        formula = a[1]
        subs = a[2] if len(a) > 2 else kw.get("subs")
        r = ex.fresh("subst", Node)
        self.world.touch(ex, r)
        keys = [k for k, _ in subs.items] if isinstance(subs, DictVal) else list(subs)
        vals = [v for _, v in subs.items] if isinstance(subs, DictVal) else list(subs.values())
        for k, v in zip(keys, vals):
            ex.oblige("requires:substitute:type-correct-map", S.type_of(k) == S.type_of(v))
        agree = z3.And([S.val(k) == S.val(v) for k, v in zip(keys, vals)]) if keys else z3.BoolVal(True)
        dom = z3.EmptySet(Node)
        for k in keys:
            dom = z3.SetAdd(dom, k)
        ex.assume(S.type_of(r) == S.type_of(formula))
        ex.assume(z3.Implies(agree, S.val(r) == S.val(formula)))
        ex.assume(S.fv(r) == z3.SetDifference(S.fv(formula), dom))       # the replacements are constants
        # a symbol (not a function name) is itself a quantifier-free, UF-free term
        ex.assume(z3.Implies(z3.And(S.op(formula) == S.SYMBOL, z3.Not(Ty.is_FunT(S.type_of(formula)))), groundable(formula)))
        ex.assume(groundable(r) == groundable(formula))
        return r


class SimplifySummary(Contract):
    """FNode.simplify(): C01 (type, value, free symbols) and C02's ground completeness
    (a closed groundable formula simplifies to a constant) - lemma over the rule contracts."""
    qualname = "pysmt.fnode.FNode.simplify"

    def apply(self, ex, a, kw):
        n = a[0]
        r = ex.fresh("simplified", Node)
        self.world.touch(ex, r)
        ex.assume(S.type_of(r) == S.type_of(n))
        ex.assume(S.val(r) == S.val(n))
        ex.assume(z3.IsSubset(S.fv(r), S.fv(n)))
        ex.assume(z3.Implies(z3.And(groundable(n), S.fv(n) == z3.EmptySet(Node)), S.isconst(r)))
        ex.assume(z3.Implies(S.isconst(r), S.fv(r) == z3.EmptySet(Node)))
        return r


def default_value(t):
    """documented defaults: false, 0, 0.0, zero bit-vector"""
    return z3.If(t == S.BoolT, S.VBool(False), z3.If(t == S.IntT, S.VInt(0), z3.If(t == S.RealT, S.VReal(0), S.VBV(0))))


def has_default(t):
    return z3.Or(t == S.BoolT, t == S.IntT, t == S.RealT, Ty.is_BVT(t))


class ModelVariant(Variant):
    prop_ids = ("C02",)
    bounded = "arity"

    def __init__(self, world, method, nassign, completion=True):
        self.world, self.method, self.nassign, self.completion = world, method, nassign, completion
        self.qualname = (EM if method in ("get_value", "_complete_model") else "pysmt.solvers.solver.Model") + "." + method
        self.name = "model:%s/assigned%d%s" % (method, nassign, "" if completion else "/no-completion")
        self.max_arity = 1 if method == "satisfies" else 2

    def setup(self, ex):
        W = self.world
        env = core.make_env(ex, W)
        for c in (SubstituteSummary(), SimplifySummary()):
            c.world = W
            W.contracts[c.qualname] = c
        ex.ghost["enumerate_sets"] = True
        f = z3.Const("formula", Node)
        self.formula = f
        W.touch(ex, f)
        ex.assume(groundable(f))
        keys = [z3.Const("key%d" % i, Node) for i in range(self.nassign)]
        vals = [z3.Const("cst%d" % i, Node) for i in range(self.nassign)]
        self.keys, self.vals = keys, vals
        for k, v in zip(keys, vals):
            W.touch(ex, k)
            W.touch(ex, v)
            ex.assume(S.op(k) == S.SYMBOL)
            W.learn(ex, k, op=S.SYMBOL, k=0)
            ex.assume(S.isconst(v))
            ex.assume(S.type_of(k) == S.type_of(v))
            ex.assume(S.val(k) == S.val(v))            # the interpretation IS the model
        if len(keys) > 1:
            ex.assume(z3.Distinct(keys))
        m = Obj(EM, {"environment": env, "_converter": None,
                     "assignment": DictVal(list(zip(keys, vals))),
                     "completed_assignment": DictVal(list(zip(keys, vals)))}, tag="model")
        self.model = m
        fi = W.repo.method(EM, self.method)
        fn = W.wrap_func(fi, fi.module, bound=m)
        if self.method in ("get_value", "get_py_value"):
            return fn, [f], {"model_completion": self.completion}
        if self.method == "__getitem__":
            return fn, [f], {}
        if self.method == "satisfies":
            ex.assume(S.type_of(f) == S.BoolT)
            return fn, [f], {}
        raise KeyError(self.method)

    def known_class(self, clause):
        for k in core.known_entries():
            if k.get("class") == "array-typed-formula" and k.get("clause") == clause and self.method == "get_py_value":
                return k["id"], Ty.is_ArrT(S.type_of(self.formula))
        return None

    def completed_agrees(self, ex):
        """symbols the formula mentions beyond the assignment carry their default in the interpretation"""
        out = []
        ca = self.model.fields["completed_assignment"]
        for k, v in ca.items:
            if not any(k.eq(k0) for k0 in self.keys):
                out.append(S.val(k) == default_value(S.type_of(k)))
        return z3.And(out) if out else z3.BoolVal(True)

    def check(self, ex, outcome):
        kind, r = outcome
        f = self.formula
        dom = z3.EmptySet(Node)
        for k in self.keys:
            dom = z3.SetAdd(dom, k)
        rest = z3.SetDifference(S.fv(f), dom)
        total = rest == z3.EmptySet(Node)
        if kind == "raise":
            if self.completion:
                # with completion an error is only allowed for a free symbol without documented default
                els = ex.ghost.get("set_elements", [])
                return [("error-only-without-default", z3.Or([z3.And(z3.IsMember(w, rest), z3.Not(has_default(S.type_of(w))))
                                                              for w in els]) if els else z3.BoolVal(False))]
            return [("error-only-for-partial-model", z3.Not(total))]
        agree = self.completed_agrees(ex)
        if self.method in ("get_value", "__getitem__"):
            if not is_node(r):
                return [("returns-node", z3.BoolVal(False))]
            return [("result-is-constant", S.isconst(r)), ("result-type", S.type_of(r) == S.type_of(f)),
                    ("exact-value", z3.Implies(agree, S.val(r) == S.val(f)))]
        if self.method == "get_py_value":
            return [("python-value", z3.Implies(agree, _py_eq(ex, r, f)))]
        if self.method == "satisfies":
            t = ex.truth(r)
            t = t if is_z3(t) else z3.BoolVal(bool(t))
            return [("satisfies-iff-true", z3.Implies(z3.And(agree, total), t == S.vb(S.val(f))))]
        return []


class PluralVariant(Variant):
    """Model.get_values / get_py_values on a list of two formulae: the answer for each formula is what the single-formula call
    gives for it WITH THE SAME completion flag (the single-formula contracts above then carry 'exact value / error or a value
    that holds for every completion' over to the plural calls and to `satisfies`, which is built on get_values)."""
    prop_ids = ("C02",)
    replay_kind = "model-plural"

    def __init__(self, world, method, completion, how="keyword"):
        self.world, self.method, self.completion, self.how = world, method, completion, how
        self.single = {"get_values": "get_value", "get_py_values": "get_py_value"}[method]
        self.qualname = "pysmt.solvers.solver.Model." + method
        self.name = "model-plural:%s/%s/%s" % (method, "completion" if completion else "no-completion", how)

    def setup(self, ex):
        W = self.world
        env = core.make_env(ex, W)
        self.f, self.g = z3.Const("formula", Node), z3.Const("other_formula", Node)
        for x in (self.f, self.g):
            W.touch(ex, x)
        ex.assume(self.f != self.g)
        self.V = z3.Function("single_call_answer", Node, B, Node)
        self.asked = []
        v = self
        m = Obj(EM, {"environment": env, "_converter": None, "assignment": DictVal([]), "completed_assignment": DictVal([])},
                tag="model")
        def single(exx, a, kw):
            x = a[1] if len(a) > 1 and isinstance(a[0], Obj) else a[0]
            rest = a[2:] if len(a) > 1 and isinstance(a[0], Obj) else a[1:]
            mc = rest[0] if rest else kw.get("model_completion", True)
            mc = mc if is_z3(mc) else z3.BoolVal(bool(mc))
            v.asked.append((x, mc))
            if exx.decide(exx.fresh("single_call_raises", B)):
                exx.ghost["single_failed"] = (x, mc)
                raise PyRaise(ExcVal("PysmtTypeError", ("partial model",)))
            r_ = v.V(x, mc)
            W.touch(exx, r_)
            return r_
        m.fields[self.single] = Builtin(self.single, single, bound=m)
        self.model = m
        fi = W.repo.method(EM, self.method)
        fn = W.wrap_func(fi, fi.module, bound=m)
        if self.how == "keyword":
            return fn, [[self.f, self.g]], {"model_completion": self.completion}
        if self.how == "positional":
            return fn, [[self.f, self.g], self.completion], {}
        return fn, [[self.f, self.g]], {}                       # default: completion requested

    def check(self, ex, outcome):
        kind, r = outcome
        want = z3.BoolVal(bool(self.completion))
        if kind == "raise":
            failed = ex.ghost.get("single_failed")
            ok = failed is not None
            return [("error-only-when-the-single-call-fails", z3.BoolVal(bool(ok))),
                    ("failing-single-call-was-asked-with-the-given-completion-flag", (failed[1] == want) if ok else z3.BoolVal(False))]
        if not isinstance(r, DictVal):
            return [("returns-a-dictionary", z3.BoolVal(False))]
        goals = [("one-entry-per-formula", z3.BoolVal(len(r.items) == 2))]
        for x, nm in ((self.f, "first"), (self.g, "second")):
            hit = [v_ for k_, v_ in r.items if is_node(k_) and k_.eq(x)]
            goals.append(("%s-formula-maps-to-its-single-call-answer-with-the-same-completion-flag" % nm,
                          (hit[0] == self.V(x, want)) if len(hit) == 1 and is_node(hit[0]) else z3.BoolVal(False)))
        return goals


def _py_eq(ex, r, f):
    t = S.type_of(f)
    from pyvc.symex import is_sym_bool, is_sym_int, is_sym_real, is_sym_str
    if isinstance(r, bool) or is_sym_bool(r):
        return z3.And(t == S.BoolT, (r if is_z3(r) else z3.BoolVal(r)) == S.vb(S.val(f)))
    if is_sym_int(r) or isinstance(r, int):
        rr = r if is_z3(r) else z3.IntVal(r)
        return z3.Or(z3.And(t == S.IntT, rr == S.vi(S.val(f))), z3.And(Ty.is_BVT(t), rr == S.vbv(S.val(f))))
    if is_sym_real(r):
        return z3.And(t == S.RealT, r == S.vr(S.val(f)))
    if is_sym_str(r) or isinstance(r, str):
        rr = r if is_z3(r) else z3.StringVal(r)
        return z3.And(t == S.StrT, rr == S.vs(S.val(f)))
    return z3.BoolVal(False)


def extras(prop, tier, seed):
    if prop != "C02":
        return []
    from pyvc.report import run_bounded
    return [run_bounded("model_eval", tier, seed), run_bounded("plural_model", tier, seed)]


def variants(world, tier="quick", only=None):
    out = []
    for n in (0, 1, 2):
        out.append(ModelVariant(world, "get_value", n, True))
        out.append(ModelVariant(world, "get_value", n, False))
        out.append(ModelVariant(world, "__getitem__", n))
        out.append(ModelVariant(world, "get_py_value", n, True))
        out.append(ModelVariant(world, "satisfies", n))
        out.append(ModelVariant(world, "get_py_value", n, False))
    for meth in ("get_values", "get_py_values"):
        for comp, how in ((True, "keyword"), (False, "keyword"), (False, "positional"), (True, "default")):
            out.append(PluralVariant(world, meth, comp, how))
    if only:
        out = [v for v in out if any(o in v.name for o in only)]
    return out
