"""C18, the search loop: ExternalOptimizerMixin._optimize with the real progress check of both
mixins (SUAOptimizerMixin / IncrementalOptimizerMixin), for all iterations, by an inductive
loop invariant over ghost state.

Setting.  I is one arbitrary interpretation; feasI says that I satisfies the user's assertions
(and the extra assumptions of a lexicographic step); V is the objective's value under I (signed
reading for signed goals).  The satisfiability oracle (solve / get_model / push / pop /
add_assertion of the underlying solver) is assumed exact:
    solve(A) = False   =>  I does not satisfy  assertions + asserted cuts + A      (I is arbitrary)
    solve(A) = True    =>  the model M then returned by get_model() satisfies them all; its
                           objective value mv(M) is a representable number
The search interval is used through the contracts proved in contracts/c18_optimizer.py
(IntervalVariant): cuts denote better(V, bound) / better(V, pivot) with the pivot strictly
inside, updates move the best-known / proved bound, empty() compares the bounds.

Invariant of  `while not current.empty()`  (minimisation; maximisation is the mirror image):
    first_step       =>  no model yet, bounds as initialised (non-empty interval)
    not first_step   =>  a model M of the assertions is held, upper = mv(M), representable
    proved bound     :   feasI  =>  V >= lower            (nothing feasible is better than `lower`)
    asserted cuts    :   better(V, upper)  =>  I satisfies every cut asserted so far
    levels           :   exactly one level above the caller's
Post-conditions (every return):  None only if feasI is false (I arbitrary: the assertions are
unsatisfiable); otherwise the model returned is a model of the assertions, the cost returned is its
objective value, and feasI => V is not better than it (true optimum); the level pushed by
_setup is popped, together with every cut asserted inside it.
Termination: once both bounds are known (bit-vectors: from the start) the width of the interval is a
variant that decreases with every iteration; for integer objectives the phase before a proved bound
exists is not bounded by any variant (the property only speaks about objectives whose optimum is
attained; covered by the bounded stand-in)."""
import z3

from pyvc import sorts as S
from pyvc.sorts import Node, Ty, I, B
from pyvc.symex import Obj, Builtin, is_node, is_z3, PyRaise, ExcVal, Unsupported, PathAbort
from pyvc import builtins_impl as BI
from pyvc.harness import Variant
from pyvc.world import Contract
from pyvc.loops import LoopInvariant
from . import core

DEADLINE = {"quick": 300, "thorough": 900}
REPLAY_KIND = "optimizer-loop"
OPT = "pysmt.optimization.optimizer"
OSI = OPT + ".OptSearchInterval"
GOALS = {"min": "pysmt.optimization.goal.MinimizationGoal", "max": "pysmt.optimization.goal.MaximizationGoal"}


class Abs:
    """abstract search interval: optional bounds as (is_none, value) pairs of z3 terms"""
    def __init__(self, ex, tag):
        self.ln, self.lo = ex.fresh(tag + "_lower_none", B), ex.fresh(tag + "_lower", I)
        self.un, self.up = ex.fresh(tag + "_upper_none", B), ex.fresh(tag + "_upper", I)
        self.pn, self.pv = ex.fresh(tag + "_pivot_none", B), ex.fresh(tag + "_pivot", I)


class LoopVariant(Variant):
    prop_ids = ("C18",)

    def __init__(self, world, kind, direction, strategy, mixin):
        self.world, self.kind, self.dir, self.strategy, self.mixin = world, kind, direction, strategy, mixin
        self.cls = OPT + (".SUAOptimizerMixin" if mixin == "sua" else ".IncrementalOptimizerMixin")
        self.qualname = OPT + ".ExternalOptimizerMixin._optimize"
        self.name = "optimize-loop[%s/%s/%s/%s]" % (kind, direction, strategy, mixin)

    # ---- vocabulary -------------------------------------------------------
    def better(self, a, b, strict=True):
        if self.dir == "min":
            return a < b if strict else a <= b
        return a > b if strict else a >= b

    def rep(self, x):
        if self.kind == "int":
            return z3.BoolVal(True)
        return z3.And(self.minrep <= x, x <= self.maxrep)

    # ---- set-up -----------------------------------------------------------
    def setup(self, ex):
        W = self.world
        env = core.make_env(ex, W)
        g = ex.ghost
        self.feasI = z3.Const("I_satisfies_the_assertions", B)
        self.V = z3.Const("objective_value_under_I", I)
        if self.kind == "int":
            self.minrep = self.maxrep = None
        else:
            w = z3.Const("width", I)
            ex.assume(w >= 1)
            p = S.pow2(w)
            S.pow2(w - 1)
            if self.kind == "ubv":
                self.minrep, self.maxrep = z3.IntVal(0), p - 1
            else:
                self.minrep, self.maxrep = -S.pow2(w - 1), S.pow2(w - 1) - 1
            ex.assume(self.minrep <= self.maxrep)
            ex.assume(self.rep(self.V))
        term = z3.Const("objective", Node)
        W.touch(ex, term)
        self.term = term
        goal = Obj(GOALS[self.dir], {"formula": term, "_bv_signed": self.kind == "sbv"}, tag="goal")
        self.goal = goal
        self.L0 = z3.Const("levels_on_entry", I)
        g["levels"] = self.L0
        g["cutsI"] = z3.BoolVal(True)          # I satisfies every cut asserted at the optimiser's level
        g["cut_bound"] = {}                    # id of a cut node -> bound b (the cut denotes better(V, b))
        g["models"] = []
        g["asserted_bounds"] = []
        v = self

        # ---- the search interval through its proved contracts ----------------------------------
        def new_interval(exx, a, kw):
            A = Abs(exx, "init")
            if v.kind == "int":
                exx.assume(z3.And(A.ln, A.un))
            else:
                exx.assume(z3.And(z3.Not(A.ln), z3.Not(A.un)))
                # __init__: the bounds enclose every representable value, on the open side by at least one
                # (post-conditions proved for OptSearchInterval.__init__: encloses-representable-values,
                #  lower-bound-representable / upper-bound-tight, interval-invariant)
                exx.assume(z3.And(A.lo >= v.minrep - 1, A.up <= v.maxrep + 2))
                if v.dir == "min":
                    exx.assume(z3.And(A.lo <= v.minrep, A.lo >= v.minrep, A.up > v.maxrep))
                else:
                    exx.assume(z3.And(A.lo < v.minrep, A.up >= v.maxrep, A.up <= v.maxrep + 1))
            exx.assume(A.pn)
            o = Obj("abstract.Interval", {"abs": A}, tag="interval")
            for nm, fn in (("empty", i_empty), ("linear_search_cut", i_lin), ("binary_search_cut", i_bin),
                           ("search_is_sat", i_sat), ("search_is_unsat", i_unsat)):
                o.fields[nm] = Builtin("interval." + nm, (lambda f: lambda e2, a2, k2: f(e2, o, a2))(fn))
            v.interval = o
            return o

        def i_empty(exx, o, a):
            A = o.fields["abs"]
            return z3.And(z3.Not(A.ln), z3.Not(A.un), A.up <= A.lo)

        def mk_cut(exx, bound):
            r = exx.fresh("cut", Node)
            W.touch(exx, r)
            exx.assume(S.type_of(r) == S.BoolT)
            exx.ghost["cut_bound"][r.get_id()] = bound
            return r

        def i_lin(exx, o, a):
            A = o.fields["abs"]
            none, b = (A.un, A.up) if v.dir == "min" else (A.ln, A.lo)
            exx.oblige("requires:linear_search_cut:best-known-bound-is-a-model-value", z3.And(z3.Not(none), v.rep(b)))
            return mk_cut(exx, b)

        def i_bin(exx, o, a):
            A = o.fields["abs"]
            p = exx.fresh("pivot", I)
            if v.kind != "int":
                # pre-condition of the proved contract: non-empty interval, bounds as after a first model
                pre = z3.And(z3.Not(A.ln), z3.Not(A.un), A.lo < A.up,
                             A.lo >= v.minrep, (A.up <= v.maxrep) if v.dir == "min" else (A.up <= v.maxrep + 1))
                exx.oblige("requires:binary_search_cut:non-empty-interval-after-a-first-model", pre)
            both = z3.And(z3.Not(A.ln), z3.Not(A.un))
            if v.dir == "min":
                exx.assume(z3.Implies(z3.And(both, A.lo < A.up), z3.And(A.lo < p, p <= A.up)))
                exx.assume(z3.Implies(z3.And(A.ln, z3.Not(A.un)), p <= A.up))
                exx.assume(z3.Implies(z3.And(z3.Not(A.ln), A.un), p > A.lo))
            else:
                exx.assume(z3.Implies(z3.And(both, A.lo < A.up), z3.And(A.lo <= p, p < A.up)))
                exx.assume(z3.Implies(z3.And(A.ln, z3.Not(A.un)), p < A.up))
                exx.assume(z3.Implies(z3.And(z3.Not(A.ln), A.un), p >= A.lo))
            B2 = Abs(exx, "bin")
            exx.assume(z3.And(B2.ln == A.ln, B2.lo == A.lo, B2.un == A.un, B2.up == A.up, z3.Not(B2.pn), B2.pv == p))
            o.fields["abs"] = B2
            return mk_cut(exx, p)

        def i_sat(exx, o, a):
            A = o.fields["abs"]
            mv = a[0].fields["mv"]
            B2 = Abs(exx, "sat")
            exx.assume(B2.pn)
            if v.dir == "min":
                exx.assume(z3.And(z3.Not(B2.un), B2.up == z3.If(z3.Or(A.un, A.up > mv), mv, A.up), B2.ln == A.ln, B2.lo == A.lo))
            else:
                exx.assume(z3.And(z3.Not(B2.ln), B2.lo == z3.If(z3.Or(A.ln, A.lo < mv), mv, A.lo), B2.un == A.un, B2.up == A.up))
            o.fields["abs"] = B2
            return None

        def i_unsat(exx, o, a):
            A = o.fields["abs"]
            B2 = Abs(exx, "unsat")
            exx.assume(z3.And(B2.pn == A.pn, B2.pv == A.pv))
            if v.dir == "min":
                exx.assume(z3.And(B2.un == A.un, B2.up == A.up,
                                  B2.ln == z3.If(A.pn, A.un, z3.BoolVal(False)), B2.lo == z3.If(A.pn, A.up, A.pv)))
            else:
                exx.assume(z3.And(B2.ln == A.ln, B2.lo == A.lo,
                                  B2.un == z3.If(A.pn, A.ln, z3.BoolVal(False)), B2.up == z3.If(A.pn, A.lo, A.pv)))
            o.fields["abs"] = B2
            return None

        # ---- the exact satisfiability oracle ------------------------------------------------------
        def cut_holds_I(exx, r):
            b = exx.ghost["cut_bound"].get(r.get_id())
            if b is None:
                raise Unsupported("assumption that is not a cut")
            return v.better(v.V, b)

        def cut_holds_val(exx, r, mv):
            return v.better(mv, exx.ghost["cut_bound"][r.get_id()])

        def solve(exx, a, kw):
            assum = kw.get("assumptions", a[1] if len(a) > 1 else None)
            assum = [] if assum is None else list(BI.iterate(W, exx, assum))
            gg = exx.ghost
            if exx.decide(exx.fresh("sat", B)):
                mv = exx.fresh("model_value", I)
                exx.assume(v.rep(mv))
                for r in assum:
                    exx.assume(cut_holds_val(exx, r, mv))
                for b in gg["asserted_bounds"]:
                    exx.assume(v.better(mv, b))
                gg["last_model_value"] = mv
                return True
            exx.assume(z3.Not(z3.And([v.feasI, gg["cutsI"]] + [cut_holds_I(exx, r) for r in assum])))
            gg["last_model_value"] = None
            return False

        def get_model(exx, a, kw):
            mv = exx.ghost.get("last_model_value")
            if mv is None:
                exx.oblige("requires:get_model:after-a-sat-answer", z3.BoolVal(False))
                raise PathAbort("get_model without sat")
            m = Obj("pysmt.solvers.solver.Model", {"mv": mv, "feasible": True}, tag="model")
            exx.ghost["models"].append(m)
            return m

        def model_get_value(exx, a, kw):
            m = a[0]
            c = exx.fresh("cost", Node)
            W.touch(exx, c)
            exx.ghost.setdefault("costs", {})[c.get_id()] = m.fields["mv"]
            return c

        def push(exx, a, kw):
            exx.ghost["levels"] = exx.ghost["levels"] + 1
            exx.ghost.setdefault("level_marks", []).append((len(exx.ghost["asserted_bounds"]), exx.ghost["cutsI"]))
            return None

        def pop(exx, a, kw):
            gg = exx.ghost
            gg["levels"] = gg["levels"] - 1
            marks = gg.get("level_marks", [])
            if marks:
                n, c = marks.pop()
                del gg["asserted_bounds"][n:]
                gg["cutsI"] = c
            else:
                # the optimiser's own level (pushed before the loop, outside the havocked region): every cut asserted in it goes
                gg["asserted_bounds"] = []
                gg["cutsI"] = z3.BoolVal(True)
            return None

        def add_assertion(exx, a, kw):
            r = a[1]
            gg = exx.ghost
            b = gg["cut_bound"].get(r.get_id())
            if b is None:
                raise Unsupported("assertion that is not a cut")
            gg["asserted_bounds"].append(b)
            gg["cutsI"] = z3.And(gg["cutsI"], v.better(v.V, b))
            return None

        class C(Contract):
            def __init__(self, q, fn):
                self.qualname, self.fn = q, fn

            def apply(self, exx, a, kw):
                return self.fn(exx, a, kw)
        for q, fn in (("new:" + OSI, new_interval), ("pysmt.solvers.solver.Solver.solve", solve),
                      ("pysmt.solvers.solver.Solver.get_model", get_model), ("pysmt.solvers.solver.Model.get_value", model_get_value),
                      ("pysmt.solvers.solver.Solver.push", push), ("pysmt.solvers.solver.Solver.pop", pop),
                      ("pysmt.solvers.solver.Solver.add_assertion", add_assertion),
                      (OPT + "._warn_diverge_real_goal", lambda exx, a, kw: None)):
            c = C(q, fn)
            c.world = W
            W.contracts[q] = c
        self.solver = Obj(self.cls, {"environment": env}, tag="optimizer")
        # extra assumptions of a lexicographic step are part of "the assertions" (feasI)
        fi = W.repo.func(self.qualname)
        fn = W.wrap_func(fi, fi.module, bound=self.solver, owner=OPT + ".ExternalOptimizerMixin")

        # ---- the loop invariant ---------------------------------------------------------------------
        def havoc(exx, fr):
            A = Abs(exx, "inv")
            v.interval.fields["abs"] = A
            gg = exx.ghost
            if exx.decide(exx.fresh("still_the_first_step", B)):
                fr.locs["first_step"] = True
                fr.locs["model"] = None
            else:
                fr.locs["first_step"] = False
                mv = exx.fresh("held_model_value", I)
                fr.locs["model"] = Obj("pysmt.solvers.solver.Model", {"mv": mv, "feasible": True}, tag="held-model")
            fr.locs["lin_assertions"] = None
            fr.locs["temp_model"] = None
            gg["cutsI"] = exx.fresh("I_satisfies_the_asserted_cuts", B)
            # the cuts asserted so far at the optimiser's level are summarised by cutsI (for I) and by the
            # strongest of their bounds (for the models the oracle returns later)
            sb = exx.fresh("strongest_asserted_bound", I)
            gg["asserted_bounds"] = [sb] if (v.mixin == "incr" and v.strategy == "linear" and not fr.locs["first_step"]) else []
            gg["level_marks"] = []
            gg["last_model_value"] = None

        def inv(exx, fr):
            A = v.interval.fields["abs"]
            first = fr.locs["first_step"]
            model = fr.locs["model"]
            gg = exx.ghost
            out = [("first-step-iff-no-model", z3.BoolVal((first is True) == (model is None)))]
            if (first is True) != (model is None) or not isinstance(first, bool):
                return out
            best_none, best, proved_none, proved = (A.un, A.up, A.ln, A.lo) if v.dir == "min" else (A.ln, A.lo, A.un, A.up)
            if v.kind == "int":
                if first:
                    out.append(("initial-bounds-on-the-first-step", z3.And(A.ln, A.un)))
            else:
                out.append(("bounds-always-set", z3.And(z3.Not(A.ln), z3.Not(A.un))))
                if first:
                    out.append(("initial-interval-non-empty", A.lo < A.up))
                    out.append(("initial-interval-encloses-every-value",
                                z3.And(A.lo <= v.minrep, A.up > v.maxrep) if v.dir == "min" else z3.And(A.lo < v.minrep, A.up >= v.maxrep)))
                if v.dir == "min":
                    out.append(("bounds-in-range", z3.And(A.lo >= v.minrep, A.up <= v.maxrep + 2, z3.BoolVal(True) if first else A.up <= v.maxrep)))
                else:
                    out.append(("bounds-in-range", z3.And(A.up <= v.maxrep + 1, A.lo >= v.minrep - 1, z3.BoolVal(True) if first else A.lo >= v.minrep)))
            if not first:
                mv = model.fields["mv"]
                out.append(("best-known-bound-is-the-held-model-value", z3.And(z3.Not(best_none), best == mv, v.rep(mv))))
                out.append(("held-model-is-a-model-of-the-assertions", z3.BoolVal(bool(model.fields.get("feasible")))))
            if v.strategy == "linear":
                out.append(("no-pivot-in-linear-search", A.pn))
            # soundness of the proved bound: nothing feasible is better than it
            out.append(("proved-bound-is-sound", z3.Implies(z3.And(z3.Not(proved_none), v.feasI), z3.Not(v.better(v.V, proved)))))
            cuts = gg["cutsI"] if is_z3(gg["cutsI"]) else z3.BoolVal(bool(gg["cutsI"]))
            if v.mixin == "incr" and v.strategy == "linear":
                if first:
                    out.append(("no-cut-asserted-before-the-first-model", z3.And(cuts, z3.BoolVal(len(gg["asserted_bounds"]) == 0))))
                else:
                    # every asserted cut asks for an improvement on a bound that is not better than the best-known one
                    out.append(("asserted-cuts-are-implied-by-improvement", z3.Implies(v.better(v.V, best), cuts)))
                    for b in gg["asserted_bounds"]:
                        out.append(("asserted-cuts-weaker-than-best-known", z3.Not(v.better(b, best))))
            else:
                out.append(("nothing-asserted-at-the-optimiser-level", z3.And(cuts, z3.BoolVal(len(gg["asserted_bounds"]) == 0))))
            out.append(("one-level-above-the-caller", gg["levels"] == v.L0 + 1))
            return out
        def variant(exx, fr):
            # once both bounds are known the width of the interval shrinks with every iteration (termination from then on;
            # for bit-vectors both bounds are known from the start)
            A = v.interval.fields["abs"]
            return z3.And(z3.Not(A.ln), z3.Not(A.un)), A.up - A.lo
        W.loop_contracts[(self.qualname, 0)] = LoopInvariant(havoc, inv, variant=variant, name="search")
        return fn, [goal, self.strategy], {}

    # ---- post-conditions ----------------------------------------------------------------------------
    def check(self, ex, outcome):
        kind, r = outcome
        g = ex.ghost
        goals = [("assertion-stack-restored", g["levels"] == self.L0),
                 ("cuts-gone-with-the-level", z3.BoolVal(len(g["asserted_bounds"]) == 0))]
        if kind == "raise":
            return [("no-exception", z3.BoolVal(False))] + goals
        if r is None:
            goals.append(("no-solution-only-if-unsatisfiable", z3.Not(self.feasI)))
            return goals
        if not (isinstance(r, tuple) and len(r) == 2 and isinstance(r[0], Obj)):
            return goals + [("returns-model-and-cost", z3.BoolVal(False))]
        m, c = r
        mv = m.fields["mv"]
        goals.append(("returned-model-is-a-model-of-the-assertions", z3.BoolVal(bool(m.fields.get("feasible")))))
        cost = g.get("costs", {}).get(c.get_id()) if is_z3(c) else None
        goals.append(("cost-is-the-objective-value-of-the-returned-model", (cost == mv) if cost is not None else z3.BoolVal(False)))
        goals.append(("true-optimum", z3.Implies(self.feasI, z3.Not(self.better(self.V, mv)))))
        return goals

    def witness(self, model, ex):
        return {"kind": self.kind, "direction": self.dir, "strategy": self.strategy, "mixin": self.mixin}


def variants(world, tier="quick", only=None):
    out = []
    for kind in ("int", "ubv", "sbv"):
        for d in ("min", "max"):
            for st in ("linear", "binary"):
                for mx in ("sua", "incr"):
                    out.append(LoopVariant(world, kind, d, st, mx))
    if only:
        out = [v for v in out if any(o in v.name for o in only)]
    return out
