"""C03 (constructors), C04 (faithful structure) and C06 (derived constructors):
every node-returning FormulaManager method is executed from its real source on
arbitrary argument nodes and must

  * raise exactly when the application is ill-sorted / ill-formed  (C03),
  * for core operators return THE node with the given operator, children and
    parameters                                                     (C04),
  * denote, under an arbitrary interpretation, the named function of its
    arguments' values, with the named type                         (C06)."""
import z3

from pyvc import sorts as S
from pyvc import spec
from pyvc.sorts import Node, Ty, I, B, R, K, VBool, VInt, VReal, VBV, VStr, vb, vi, vr, vbv, vs, pow2
from pyvc.symex import is_node, Obj
from pyvc.harness import Variant
from . import core

MGR = "pysmt.formula.FormulaManager"
DEADLINE = {"quick": 200, "thorough": 1200}
REPLAY_KIND = "constructor"

BoolT, IntT, RealT, StrT = S.BoolT, S.IntT, S.RealT, S.StrT


def ty(x):
    return S.type_of(x)


def v(x):
    return S.val(x)


def is_bv(t):
    return Ty.is_BVT(t)


def w_of(x):
    return Ty.bvw(ty(x))


def arith2(a, b):
    return z3.And(ty(a) == ty(b), z3.Or(ty(a) == IntT, ty(a) == RealT))


def bv2(a, b):
    return z3.And(is_bv(ty(a)), ty(a) == ty(b))


def num(x):
    """numeric value as a real (Int or Real typed)"""
    return z3.If(ty(x) == IntT, z3.ToReal(vi(v(x))), vr(v(x)))


def mknum(t, r):
    return z3.If(t == IntT, VInt(z3.ToInt(r)), VReal(r))


def allbool(xs):
    return z3.And([ty(x) == BoolT for x in xs]) if xs else z3.BoolVal(True)


def sgn(x):
    return spec.signed(vbv(v(x)), w_of(x))


class Spec:
    """applicable(args)->Bool, rtype(args)->Ty, rval(args)->Val; core=(op, payload fn) for C04"""
    def __init__(self, name, params, applicable, rtype, rval, core=None, arities=None, props=("C03", "C06"),
                 ints=None):
        self.name, self.params, self.applicable, self.rtype, self.rval = name, params, applicable, rtype, rval
        self.core, self.arities, self.props, self.ints = core, arities, props, ints or {}


def core_spec(name, Kop, k, payload=None, params=None, pre=None):
    """core operator: typing rule + meaning straight from the specification tables"""
    def mk_node(world, args, ints):
        pl = payload(args, ints) if payload else []
        return world.mk_term(Kop, args, pl), pl

    def applicable(world, args, ints):
        m, pl = mk_node(world, args, ints)
        ok, _ = spec.type_rule(Kop, m, [ty(a) for a in args])
        wf = spec.payload_wf(Kop, m, [ty(a) for a in args])
        extra = pre(args, ints) if pre else z3.BoolVal(True)
        return z3.And(ok, wf, extra), m, pl
    return (name, Kop, k, applicable, params)


SPECS = {}


def reg(sp):
    SPECS[sp.name] = sp


def bvbin(Kop):
    return lambda xs, i: VBV(spec.sem_bv(Kop, w_of(xs[0]), vbv(v(xs[0])), vbv(v(xs[1])), None))


def build_specs():
    T = z3.BoolVal(True)
    # ---- derived Boolean / arithmetic ------------------------------------------
    reg(Spec("GE", "NN", lambda xs, i: arith2(*xs), lambda xs, i: BoolT, lambda xs, i: VBool(num(xs[0]) >= num(xs[1]))))
    reg(Spec("GT", "NN", lambda xs, i: arith2(*xs), lambda xs, i: BoolT, lambda xs, i: VBool(num(xs[0]) > num(xs[1]))))
    reg(Spec("LE", "NN", lambda xs, i: arith2(*xs), lambda xs, i: BoolT, lambda xs, i: VBool(num(xs[0]) <= num(xs[1]))))
    reg(Spec("LT", "NN", lambda xs, i: arith2(*xs), lambda xs, i: BoolT, lambda xs, i: VBool(num(xs[0]) < num(xs[1]))))
    eq_ok = lambda xs, i: z3.And(ty(xs[0]) == ty(xs[1]), ty(xs[0]) != BoolT)
    reg(Spec("Equals", "NN", eq_ok, lambda xs, i: BoolT, lambda xs, i: VBool(v(xs[0]) == v(xs[1]))))
    reg(Spec("NotEquals", "NN", eq_ok, lambda xs, i: BoolT, lambda xs, i: VBool(v(xs[0]) != v(xs[1]))))
    reg(Spec("EqualsOrIff", "NN", lambda xs, i: ty(xs[0]) == ty(xs[1]), lambda xs, i: BoolT,
             lambda xs, i: VBool(v(xs[0]) == v(xs[1]))))
    reg(Spec("Xor", "NN", lambda xs, i: allbool(xs), lambda xs, i: BoolT, lambda xs, i: VBool(z3.Xor(vb(v(xs[0])), vb(v(xs[1]))))))
    reg(Spec("Iff", "NN", lambda xs, i: allbool(xs), lambda xs, i: BoolT, lambda xs, i: VBool(vb(v(xs[0])) == vb(v(xs[1])))))
    reg(Spec("Implies", "NN", lambda xs, i: allbool(xs), lambda xs, i: BoolT,
             lambda xs, i: VBool(z3.Implies(vb(v(xs[0])), vb(v(xs[1]))))))
    reg(Spec("Not", "N", lambda xs, i: allbool(xs), lambda xs, i: BoolT, lambda xs, i: VBool(z3.Not(vb(v(xs[0]))))))
    reg(Spec("Ite", "NNN", lambda xs, i: z3.And(ty(xs[0]) == BoolT, ty(xs[1]) == ty(xs[2])), lambda xs, i: ty(xs[1]),
             lambda xs, i: z3.If(vb(v(xs[0])), v(xs[1]), v(xs[2]))))
    reg(Spec("Minus", "NN", lambda xs, i: arith2(*xs), lambda xs, i: ty(xs[0]),
             lambda xs, i: mknum(ty(xs[0]), num(xs[0]) - num(xs[1]))))
    for nm, isand in (("And", True), ("Or", False)):
        reg(Spec(nm, "*", lambda xs, i: allbool(xs), lambda xs, i: BoolT,
                 (lambda isand: lambda xs, i: VBool((z3.And if isand else z3.Or)([vb(v(x)) for x in xs]) if xs
                                                    else z3.BoolVal(isand)))(isand), arities=(0, 1, 2, 3)))
    for nm, isplus in (("Plus", True), ("Times", False)):
        reg(Spec(nm, "*", lambda xs, i: z3.And(z3.BoolVal(len(xs) >= 1), z3.Or(z3.And([ty(x) == IntT for x in xs]),
                                                                            z3.And([ty(x) == RealT for x in xs]))),
                 lambda xs, i: ty(xs[0]),
                 (lambda isplus: lambda xs, i: mknum(ty(xs[0]), (z3.Sum if isplus else z3.Product)([num(x) for x in xs])))(isplus),
                 arities=(0, 1, 2, 3)))
    for nm, ismin in (("Min", True), ("Max", False)):
        def mm(xs, i, ismin=ismin):
            cur = num(xs[0])
            for x in xs[1:]:
                cur = z3.If((num(x) < cur) if ismin else (num(x) > cur), num(x), cur)
            return mknum(ty(xs[0]), cur)
        reg(Spec(nm, "*", lambda xs, i: z3.And(z3.BoolVal(len(xs) >= 1), z3.Or(z3.And([ty(x) == IntT for x in xs]),
                                                                            z3.And([ty(x) == RealT for x in xs]))),
                 lambda xs, i: ty(xs[0]), mm, arities=(1, 2, 3, 4)))
    for nm, ismin in (("MinBV", True), ("MaxBV", False)):
        for signed_ in (False, True):
            def mmb(xs, i, ismin=ismin, signed_=signed_):
                key = (lambda x: sgn(x)) if signed_ else (lambda x: vbv(v(x)))
                cur, curk = vbv(v(xs[0])), key(xs[0])
                for x in xs[1:]:
                    c = (key(x) < curk) if ismin else (key(x) > curk)
                    cur, curk = z3.If(c, vbv(v(x)), cur), z3.If(c, key(x), curk)
                return VBV(cur)
            sp = Spec("%s[%s]" % (nm, "signed" if signed_ else "unsigned"), "*",
                      lambda xs, i: z3.And(z3.BoolVal(len(xs) >= 1), is_bv(ty(xs[0])), *[ty(x) == ty(xs[0]) for x in xs]),
                      lambda xs, i: ty(xs[0]), mmb, arities=(1, 2, 3))
            sp.method, sp.prefix = nm, [signed_]
            reg(sp)

    def count_true(xs):
        return z3.Sum([z3.If(vb(v(x)), 1, 0) for x in xs]) if xs else z3.IntVal(0)
    reg(Spec("AtMostOne", "*", lambda xs, i: allbool(xs), lambda xs, i: BoolT, lambda xs, i: VBool(count_true(xs) <= 1),
             arities=(0, 1, 2, 3, 4)))
    reg(Spec("ExactlyOne", "*", lambda xs, i: allbool(xs), lambda xs, i: BoolT, lambda xs, i: VBool(count_true(xs) == 1),
             arities=(0, 1, 2, 3, 4)))
    reg(Spec("AllDifferent", "*", lambda xs, i: z3.And([ty(x) == ty(xs[0]) for x in xs]) if xs else T, lambda xs, i: BoolT,
             lambda xs, i: VBool(z3.Distinct([v(x) for x in xs]) if len(xs) > 1 else z3.BoolVal(True)),
             arities=(0, 1, 2, 3)))
    reg(Spec("ToReal", "N", lambda xs, i: z3.Or(ty(xs[0]) == IntT, ty(xs[0]) == RealT), lambda xs, i: RealT,
             lambda xs, i: VReal(num(xs[0]))))
    # ---- bit-vectors -------------------------------------------------------------
    for nm, Kop in (("BVXor", S.BV_XOR), ("BVSub", S.BV_SUB), ("BVUDiv", S.BV_UDIV), ("BVURem", S.BV_UREM),
                    ("BVLShl", S.BV_LSHL), ("BVLShr", S.BV_LSHR), ("BVAShr", S.BV_ASHR), ("BVSDiv", S.BV_SDIV),
                    ("BVSRem", S.BV_SREM)):
        reg(Spec(nm, "NN", lambda xs, i: bv2(*xs), lambda xs, i: ty(xs[0]), bvbin(Kop)))
    for nm, Kop in (("BVAnd", S.BV_AND), ("BVOr", S.BV_OR), ("BVAdd", S.BV_ADD), ("BVMul", S.BV_MUL)):
        def nary(xs, i, Kop=Kop):
            cur = vbv(v(xs[0]))
            for x in xs[1:]:
                cur = spec.sem_bv(Kop, w_of(xs[0]), cur, vbv(v(x)), None)
            return VBV(cur)
        reg(Spec(nm, "*", lambda xs, i: z3.And(is_bv(ty(xs[0])), *[ty(x) == ty(xs[0]) for x in xs]) if xs else z3.BoolVal(False),
                 lambda xs, i: ty(xs[0]), nary, arities=(0, 1, 2, 3)))
    reg(Spec("BVNot", "N", lambda xs, i: is_bv(ty(xs[0])), lambda xs, i: ty(xs[0]),
             lambda xs, i: VBV(pow2(w_of(xs[0])) - 1 - vbv(v(xs[0])))))
    reg(Spec("BVNeg", "N", lambda xs, i: is_bv(ty(xs[0])), lambda xs, i: ty(xs[0]),
             lambda xs, i: VBV(spec.bvneg(vbv(v(xs[0])), w_of(xs[0])))))
    for nm, f in (("BVNand", S.band), ("BVNor", S.bor), ("BVXnor", S.bxor)):
        reg(Spec(nm, "NN", lambda xs, i: bv2(*xs), lambda xs, i: ty(xs[0]),
                 (lambda f: lambda xs, i: VBV(pow2(w_of(xs[0])) - 1 - f(vbv(v(xs[0])), vbv(v(xs[1])))))(f)))
    for nm, rel in (("BVULT", lambda a, b: a < b), ("BVULE", lambda a, b: a <= b),
                    ("BVUGT", lambda a, b: a > b), ("BVUGE", lambda a, b: a >= b)):
        reg(Spec(nm, "NN", lambda xs, i: bv2(*xs), lambda xs, i: BoolT,
                 (lambda rel: lambda xs, i: VBool(rel(vbv(v(xs[0])), vbv(v(xs[1])))))(rel)))
    for nm, rel in (("BVSLT", lambda a, b: a < b), ("BVSLE", lambda a, b: a <= b),
                    ("BVSGT", lambda a, b: a > b), ("BVSGE", lambda a, b: a >= b)):
        reg(Spec(nm, "NN", lambda xs, i: bv2(*xs), lambda xs, i: BoolT,
                 (lambda rel: lambda xs, i: VBool(rel(sgn(xs[0]), sgn(xs[1]))))(rel)))
    reg(Spec("BVComp", "NN", lambda xs, i: bv2(*xs), lambda xs, i: S.BVT(K(1)),
             lambda xs, i: VBV(z3.If(v(xs[0]) == v(xs[1]), K(1), K(0)))))

    def smod(xs, i):
        # mathematical definition: the remainder with the sign of the divisor; t = 0 -> s
        w = w_of(xs[0])
        s, t = sgn(xs[0]), sgn(xs[1])
        at = z3.If(t < 0, -t, t)
        m = s % at                       # 0 <= m < |t|   (z3: euclidean)
        r = z3.If(z3.Or(m == 0, t > 0), m, m + t)
        return VBV(z3.If(t == 0, vbv(v(xs[0])), z3.If(r < 0, r + pow2(w), r)))
    reg(Spec("BVSMod", "NN", lambda xs, i: bv2(*xs), lambda xs, i: ty(xs[0]), smod))
    reg(Spec("BVConcat", "*", lambda xs, i: z3.And(z3.BoolVal(len(xs) >= 2), *[is_bv(ty(x)) for x in xs]),
             lambda xs, i: S.BVT(z3.Sum([w_of(x) for x in xs])),
             lambda xs, i: VBV(_concat_val(xs)), arities=(2, 3)))
    for c in (1, 2, 3, 4, 5):
        def rep(xs, i, c=c):
            a, w = vbv(v(xs[0])), w_of(xs[0])
            cur = a
            for _ in range(c - 1):
                cur = cur * pow2(w) + a
            return VBV(cur)
        sp = Spec("BVRepeat[%d]" % c, "N", lambda xs, i: is_bv(ty(xs[0])), (lambda c: lambda xs, i: S.BVT(K(c) * w_of(xs[0])))(c), rep)
        if c == 1:
            # one copy: the term itself comes back, whatever its type (no node is built, so there is nothing to reject)
            sp = Spec("BVRepeat[1]", "N", lambda xs, i: z3.BoolVal(True), lambda xs, i: ty(xs[0]), lambda xs, i: v(xs[0]))
        sp.method, sp.suffix = "BVRepeat", [c]
        reg(sp)
    reg(Spec("BVExtract", "NII", lambda xs, i: z3.And(is_bv(ty(xs[0])), i[0] >= 0, i[0] <= i[1], i[1] < w_of(xs[0])),
             lambda xs, i: S.BVT(i[1] - i[0] + 1),
             lambda xs, i: VBV((vbv(v(xs[0])) / pow2(i[0])) % pow2(i[1] - i[0] + 1)), ints={"names": ["start", "end"]}))
    reg(Spec("BVZExt", "NI", lambda xs, i: z3.And(is_bv(ty(xs[0])), i[0] >= 0), lambda xs, i: S.BVT(w_of(xs[0]) + i[0]),
             lambda xs, i: VBV(vbv(v(xs[0])))))
    reg(Spec("BVSExt", "NI", lambda xs, i: z3.And(is_bv(ty(xs[0])), i[0] >= 0), lambda xs, i: S.BVT(w_of(xs[0]) + i[0]),
             lambda xs, i: VBV(z3.If(sgn(xs[0]) >= 0, vbv(v(xs[0])), sgn(xs[0]) + pow2(w_of(xs[0]) + i[0])))))
    for nm, left in (("BVRol", True), ("BVRor", False)):
        def rot(xs, i, left=left):
            w, a = w_of(xs[0]), vbv(v(xs[0]))
            s = z3.If(i[0] == w, K(0), i[0])
            if left:
                return VBV((a * pow2(s)) % pow2(w) + a / pow2(w - s))
            return VBV(a / pow2(s) + (a % pow2(s)) * pow2(w - s))
        reg(Spec(nm, "NI", lambda xs, i: z3.And(is_bv(ty(xs[0])), i[0] >= 0, i[0] <= w_of(xs[0])),
                 lambda xs, i: ty(xs[0]), rot))
    for nm, Kop in (("BVLShl", S.BV_LSHL), ("BVLShr", S.BV_LSHR), ("BVAShr", S.BV_ASHR)):
        sp = Spec(nm + "[int]", "NI", lambda xs, i: z3.And(is_bv(ty(xs[0])), i[0] >= 0, i[0] < pow2(w_of(xs[0]))),
                  lambda xs, i: ty(xs[0]),
                  (lambda Kop: lambda xs, i: VBV(spec.sem_bv(Kop, w_of(xs[0]), vbv(v(xs[0])), i[0], None)))(Kop))
        sp.method = nm
        reg(sp)
    reg(Spec("BV", "II", lambda xs, i: z3.And(i[1] >= 1, i[0] >= 0, i[0] < pow2(i[1])), lambda xs, i: S.BVT(i[1]),
             lambda xs, i: VBV(i[0])))
    reg(Spec("SBV", "II", lambda xs, i: z3.And(i[1] >= 1, i[0] >= -pow2(i[1] - 1), i[0] < pow2(i[1] - 1)),
             lambda xs, i: S.BVT(i[1]), lambda xs, i: VBV(z3.If(i[0] >= 0, i[0], i[0] + pow2(i[1])))))
    reg(Spec("BVOne", "I", lambda xs, i: i[0] >= 1, lambda xs, i: S.BVT(i[0]), lambda xs, i: VBV(K(1))))
    reg(Spec("BVZero", "I", lambda xs, i: i[0] >= 1, lambda xs, i: S.BVT(i[0]), lambda xs, i: VBV(K(0))))
    reg(Spec("BVToNatural", "N", lambda xs, i: is_bv(ty(xs[0])), lambda xs, i: IntT, lambda xs, i: VInt(vbv(v(xs[0])))))
    # ---- strings -------------------------------------------------------------------
    st = lambda *ts: (lambda xs, i: z3.And([ty(x) == t for x, t in zip(xs, ts)]))
    reg(Spec("StrLength", "N", st(StrT), lambda xs, i: IntT, lambda xs, i: VInt(z3.Length(vs(v(xs[0]))))))
    reg(Spec("StrConcat", "*", lambda xs, i: z3.And(z3.BoolVal(len(xs) >= 2), *[ty(x) == StrT for x in xs]), lambda xs, i: StrT,
             lambda xs, i: VStr(z3.Concat([vs(v(x)) for x in xs])), arities=(2, 3)))
    reg(Spec("StrContains", "NN", st(StrT, StrT), lambda xs, i: BoolT, lambda xs, i: VBool(z3.Contains(vs(v(xs[0])), vs(v(xs[1]))))))
    reg(Spec("StrIndexOf", "NNN", st(StrT, StrT, IntT), lambda xs, i: IntT,
             lambda xs, i: VInt(z3.IndexOf(vs(v(xs[0])), vs(v(xs[1])), vi(v(xs[2]))))))
    reg(Spec("StrReplace", "NNN", st(StrT, StrT, StrT), lambda xs, i: StrT,
             lambda xs, i: VStr(z3.Replace(vs(v(xs[0])), vs(v(xs[1])), vs(v(xs[2]))))))
    reg(Spec("StrSubstr", "NNN", st(StrT, IntT, IntT), lambda xs, i: StrT,
             lambda xs, i: VStr(z3.SubString(vs(v(xs[0])), vi(v(xs[1])), vi(v(xs[2]))))))
    reg(Spec("StrPrefixOf", "NN", st(StrT, StrT), lambda xs, i: BoolT, lambda xs, i: VBool(z3.PrefixOf(vs(v(xs[0])), vs(v(xs[1]))))))
    reg(Spec("StrSuffixOf", "NN", st(StrT, StrT), lambda xs, i: BoolT, lambda xs, i: VBool(z3.SuffixOf(vs(v(xs[0])), vs(v(xs[1]))))))
    reg(Spec("StrToInt", "N", st(StrT), lambda xs, i: IntT, lambda xs, i: VInt(z3.StrToInt(vs(v(xs[0]))))))
    reg(Spec("IntToStr", "N", st(IntT), lambda xs, i: StrT, lambda xs, i: VStr(z3.IntToStr(vi(v(xs[0]))))))
    reg(Spec("StrCharAt", "NN", st(StrT, IntT), lambda xs, i: StrT,
             lambda xs, i: VStr(z3.SubString(vs(v(xs[0])), vi(v(xs[1])), K(1)))))
    # ---- arrays ----------------------------------------------------------------------
    reg(Spec("Select", "NN", lambda xs, i: z3.And(Ty.is_ArrT(ty(xs[0])), Ty.aidx(ty(xs[0])) == ty(xs[1])),
             lambda xs, i: Ty.aelem(ty(xs[0])), lambda xs, i: S.asel(S.va(v(xs[0])), v(xs[1]))))
    reg(Spec("Store", "NNN", lambda xs, i: z3.And(Ty.is_ArrT(ty(xs[0])), Ty.aidx(ty(xs[0])) == ty(xs[1]),
                                                  Ty.aelem(ty(xs[0])) == ty(xs[2])),
             lambda xs, i: ty(xs[0]), lambda xs, i: S.VArr(S.astore(S.va(v(xs[0])), v(xs[1]), v(xs[2])))))


def _concat_val(xs):
    cur = vbv(v(xs[0]))
    for x in xs[1:]:
        cur = cur * pow2(w_of(x)) + vbv(v(x))
    return cur


build_specs()

# constructors whose result must be exactly mk(op, args, payload)   (C04: faithful structure)
CORE = {
    "Implies": (S.IMPLIES, None), "Iff": (S.IFF, None), "Minus": (S.MINUS, None), "Equals": (S.EQUALS, None),
    "LE": (S.LE, None), "LT": (S.LT, None), "Ite": (S.ITE, None),
    "BVXor": (S.BV_XOR, "w"), "BVSub": (S.BV_SUB, "w"), "BVUDiv": (S.BV_UDIV, "w"), "BVURem": (S.BV_UREM, "w"),
    "BVLShl": (S.BV_LSHL, "w"), "BVLShr": (S.BV_LSHR, "w"), "BVAShr": (S.BV_ASHR, "w"), "BVSDiv": (S.BV_SDIV, "w"),
    "BVSRem": (S.BV_SREM, "w"), "BVNot": (S.BV_NOT, "w"), "BVNeg": (S.BV_NEG, "w"),
    "BVULT": (S.BV_ULT, None), "BVULE": (S.BV_ULE, None), "BVSLT": (S.BV_SLT, None), "BVSLE": (S.BV_SLE, None),
    "BVComp": (S.BV_COMP, "1"), "StrLength": (S.STR_LENGTH, None), "StrContains": (S.STR_CONTAINS, None),
    "StrIndexOf": (S.STR_INDEXOF, None), "StrReplace": (S.STR_REPLACE, None), "StrSubstr": (S.STR_SUBSTR, None),
    "StrPrefixOf": (S.STR_PREFIXOF, None), "StrSuffixOf": (S.STR_SUFFIXOF, None), "StrToInt": (S.STR_TO_INT, None),
    "IntToStr": (S.INT_TO_STR, None), "StrCharAt": (S.STR_CHARAT, None), "BVToNatural": (S.BV_TONATURAL, None),
    "Select": (S.ARRAY_SELECT, None), "Store": (S.ARRAY_STORE, None),
    "BVConcat": (S.BV_CONCAT, "sum"),      # the binary application; longer argument lists are pinned by their meaning (C06)
}


# derived constructors whose meaning is proved per width of a stated family (Pw)
WIDTH_FAMILY = {"BVSMod": {"quick": (1, 2, 3, 4), "thorough": (1, 2, 3, 4, 5, 6)}}


class ConstructorVariant(Variant):
    def __init__(self, world, sp, k=None, tier="quick"):
        self.world, self.sp, self.k, self.tier = world, sp, k, tier
        self.method = getattr(sp, "method", sp.name.split("[")[0])
        self.qualname = MGR + "." + self.method
        self.name = "%s%s" % (sp.name, "" if k is None else "/%d" % k)
        props = ["C03", "C06"]
        if sp.name in CORE:
            props.append("C04")
        if sp.name.split("[")[0] in ("Min", "Max", "MinBV", "MaxBV"):
            props.append("C18")          # the min-max / max-min goals of the optimiser are these constructors (contract used by the C18 proof)
        self.prop_ids = tuple(props)
        self.max_arity = 4
        if k is not None:
            self.bounded = "arity"

    def setup(self, ex):
        W = self.world
        env = core.make_env(ex, W)
        mgr = env.fields["_formula_manager"]
        sp = self.sp
        xs, ints, call = [], [], list(getattr(sp, "prefix", []))
        if sp.params == "*":
            xs = [z3.Const("x%d" % i, Node) for i in range(self.k)]
            call.append(list(xs))
        else:
            for j, c in enumerate(sp.params):
                if c == "N":
                    x = z3.Const("x%d" % len(xs), Node)
                    xs.append(x)
                    call.append(x)
                else:
                    n = z3.Const("n%d" % len(ints), I)
                    ints.append(n)
                    call.append(n)
        call.extend(getattr(sp, "suffix", []))
        for x in xs:
            W.touch(ex, x)
            ex.assume(z3.Not(Ty.is_FunT(ty(x))))         # arguments are terms (stated assumption)
        self.xs, self.ints = xs, ints
        if sp.name in WIDTH_FAMILY:
            ex.ghost["width_family"] = WIDTH_FAMILY[sp.name][self.tier]
            self.bounded = "width"
        fi = W.repo.func(self.qualname)
        return W.wrap_func(fi, fi.module, bound=mgr), call, {}

    def check(self, ex, outcome):
        sp = self.sp
        ok = sp.applicable(self.xs, self.ints)
        kind, r = outcome
        if kind == "raise":
            return [("C03:raises-only-if-ill-formed", z3.Not(ok)), ("C06:defined-on-every-well-formed-application", z3.Not(ok))]
        if not is_node(r):
            return [("returns-node", z3.BoolVal(False))]
        self.world.touch(ex, r)
        goals = [("C03:ill-formed-application-rejected", ok),
                 ("C03:result-type", z3.Implies(ok, ty(r) == sp.rtype(self.xs, self.ints))),
                 ("C06:denotes-named-function", z3.Implies(ok, v(r) == sp.rval(self.xs, self.ints)))]
        if "C18" in self.prop_ids:
            goals.append(("C18:objective-denotes-the-minimum-or-maximum", z3.Implies(ok, z3.And(ty(r) == sp.rtype(self.xs, self.ints),
                                                                                            v(r) == sp.rval(self.xs, self.ints)))))
        if sp.name in CORE and (sp.params != "*" or self.k == 2):
            Kop, pk = CORE[sp.name]
            pl = []
            if pk == "sum":
                pl = [z3.Sum([w_of(x) for x in self.xs])]
            if pk == "w":
                pl = [w_of(self.xs[0])]
            elif pk == "1":
                pl = [K(1)]
            m = self.world.mk_term(Kop, self.xs, pl)
            goals.append(("C04:node-has-given-structure", z3.Implies(ok, r == m)))
        elif sp.name == "BVConcat" and self.k is not None and self.k > 2:
            # a longer argument list: some nesting of binary concatenations whose leaves are the arguments in the order given
            def trees(xs):
                if len(xs) == 1:
                    return [xs[0]]
                out = []
                for i in range(1, len(xs)):
                    for a in trees(xs[:i]):
                        for b in trees(xs[i:]):
                            out.append(self.world.mk_term(S.BV_CONCAT, [a, b], [w_of(a) + w_of(b)]))
                return out
            goals.append(("C04:children-in-the-order-given", z3.Implies(ok, z3.Or([r == t for t in trees(list(self.xs))]))))
        return goals

    def known_class(self, clause):
        for k in core.known_entries():
            if k.get("class") == "single-argument" and k.get("clause") == clause and self.k == 1 \
                    and self.method in k.get("constructors", []):
                return k["id"], z3.BoolVal(True)      # the class is the whole one-argument application
        return None

    def witness(self, model, ex):
        from pyvc.concretize import node_to_json, as_int
        return {"constructor": self.sp.name, "method": self.method, "prefix": list(getattr(self.sp, "prefix", [])),
                "nary": self.sp.params == "*", "suffix": list(getattr(self.sp, "suffix", [])),
                "args": [node_to_json(model, x, depth=2) for x in self.xs],
                "ints": [as_int(model, n) for n in self.ints]}


def variants(world, tier="quick", only=None):
    out = []
    for nm, sp in SPECS.items():
        if only and nm not in only and nm.split("[")[0] not in only:
            continue
        if sp.params == "*":
            for k in sp.arities:
                out.append(ConstructorVariant(world, sp, k, tier=tier))
        else:
            out.append(ConstructorVariant(world, sp, tier=tier))
    return out


# ---------------------------------------------------------------------------
# infix operators and methods of FNode (pysmt/fnode.py:686-961)
# name -> (spec for non-BV left operand, spec for BV left operand)
INFIX = {
    "__add__": ("Plus", "BVAdd"), "__radd__": ("Plus", "BVAdd"), "__sub__": ("Minus", "BVSub"),
    "__mul__": ("Times", "BVMul"), "__rmul__": ("Times", "BVMul"),
    "__gt__": ("GT", "BVUGT"), "__ge__": ("GE", "BVUGE"), "__lt__": ("LT", "BVULT"), "__le__": ("LE", "BVULE"),
    "__and__": ("And", "BVAnd"), "__rand__": ("And", "BVAnd"), "__or__": ("Or", "BVOr"), "__ror__": ("Or", "BVOr"),
    "__xor__": ("Xor", "BVXor"), "__rxor__": ("Xor", "BVXor"),
    "__lshift__": (None, "BVLShl"), "__rshift__": (None, "BVLShr"), "__mod__": (None, "BVURem"),
    "Implies": ("Implies", "Implies"), "Iff": ("Iff", "Iff"), "Equals": ("Equals", "Equals"),
    "NotEquals": ("NotEquals", "NotEquals"), "And": ("And", "And"), "Or": ("Or", "Or"),
    "BVAnd": ("BVAnd", "BVAnd"), "BVAdd": ("BVAdd", "BVAdd"), "BVAShr": ("BVAShr", "BVAShr"), "BVComp": ("BVComp", "BVComp"),
    "BVLShl": ("BVLShl", "BVLShl"), "BVLShr": ("BVLShr", "BVLShr"), "BVMul": ("BVMul", "BVMul"),
    "BVNand": ("BVNand", "BVNand"), "BVNor": ("BVNor", "BVNor"), "BVOr": ("BVOr", "BVOr"), "BVSDiv": ("BVSDiv", "BVSDiv"),
    "BVSGE": ("BVSGE", "BVSGE"), "BVSGT": ("BVSGT", "BVSGT"), "BVSLE": ("BVSLE", "BVSLE"), "BVSLT": ("BVSLT", "BVSLT"),
    "BVSub": ("BVSub", "BVSub"), "BVSMod": ("BVSMod", "BVSMod"), "BVSRem": ("BVSRem", "BVSRem"),
    "BVUDiv": ("BVUDiv", "BVUDiv"), "BVUGE": ("BVUGE", "BVUGE"), "BVUGT": ("BVUGT", "BVUGT"), "BVULE": ("BVULE", "BVULE"),
    "BVULT": ("BVULT", "BVULT"), "BVURem": ("BVURem", "BVURem"), "BVXor": ("BVXor", "BVXor"), "BVXnor": ("BVXnor", "BVXnor"),
}


class InfixVariant(Variant):
    """x.<op>(y) for node operands: denotes the named function of the two values."""
    prop_ids = ("C06",)

    def __init__(self, world, meth, tier="quick"):
        self.world, self.meth, self.tier = world, meth, tier
        self.qualname = "pysmt.fnode.FNode." + meth
        self.name = "infix:" + meth
        if "BVSMod" in INFIX[meth]:
            self.bounded = "width"

    def setup(self, ex):
        W = self.world
        core.make_env(ex, W)
        self.x, self.y = z3.Const("x0", Node), z3.Const("x1", Node)
        for n in (self.x, self.y):
            W.touch(ex, n)
            ex.assume(z3.Not(Ty.is_FunT(ty(n))))
        if "BVSMod" in INFIX[self.meth]:
            ex.ghost["width_family"] = WIDTH_FAMILY["BVSMod"][self.tier]
        fi = W.repo.func(self.qualname)
        return W.wrap_func(fi, fi.module, bound=self.x), [self.y], {}

    def _sp(self, which):
        nm = INFIX[self.meth][which]
        return SPECS[nm] if nm else None

    def check(self, ex, outcome):
        xs = [self.x, self.y]
        isbv = is_bv(ty(self.x))
        a, b = self._sp(0), self._sp(1)
        if self.meth.startswith("__r") and self.meth not in ("__rshift__",):
            xs_sem = xs       # commutative ones; __rsub__ handled separately
        else:
            xs_sem = xs

        def app(sp):
            if sp is None:
                return z3.BoolVal(False)
            return sp.applicable(xs_sem, []) if sp.params != "*" else sp.applicable(xs_sem, [])
        ok = z3.If(isbv, app(b), app(a))
        kind, r = outcome
        if kind == "raise":
            return [("C06:infix-raises-only-if-ill-formed", z3.Not(ok))]
        if not is_node(r):
            return [("returns-node", z3.BoolVal(False))]
        self.world.touch(ex, r)
        goals = [("C06:infix-ill-formed-rejected", ok)]
        want_b = b.rval(xs_sem, []) if b else v(r)
        want_a = a.rval(xs_sem, []) if a else v(r)
        goals.append(("C06:infix-denotes-named-function", z3.Implies(ok, v(r) == z3.If(isbv, want_b, want_a))))
        return goals

    def witness(self, model, ex):
        from pyvc.concretize import node_to_json
        return {"infix": self.meth, "args": [node_to_json(model, self.x, 2), node_to_json(model, self.y, 2)]}


_base_variants = variants


def variants(world, tier="quick", only=None):   # noqa: F811
    out = _base_variants(world, tier, only)
    for m in INFIX:
        if only and ("infix:" + m) not in only and "infix" not in only:
            continue
        out.append(InfixVariant(world, m, tier))
    return out


# ---------------------------------------------------------------------------
# ForAll / Exists: the binder list in any spelling of the collection
# ---------------------------------------------------------------------------
class QuantifierCtorVariant(Variant):
    """ForAll(vars, body) / Exists(vars, body) with k variables given as a list, a tuple or a one-shot iterator: with no
    variable the body itself is returned (documented normalisation, whatever the spelling of the empty collection);
    otherwise THE node (op, body, the variables in the order given), of type Bool, denoting the quantification."""
    prop_ids = ("C03", "C04")
    bounded = "arity"

    def __init__(self, world, name, k, spelling):
        self.world, self.ctor, self.k, self.spelling = world, name, k, spelling
        self.qualname = MGR + "." + name
        self.name = "%s/%d vars as %s" % (name, k, spelling)
        self.Kop = S.FORALL if name == "ForAll" else S.EXISTS

    def setup(self, ex):
        from pyvc.symex import Builtin
        W = self.world
        env = core.make_env(ex, W)
        mgr = env.fields["_formula_manager"]
        self.body = z3.Const("body", Node)
        W.touch(ex, self.body)
        ex.assume(ty(self.body) == BoolT)
        self.vars = [z3.Const("bound%d" % i, Node) for i in range(self.k)]
        for x in self.vars:
            W.touch(ex, x)
            ex.assume(S.op(x) == S.SYMBOL)
            W.learn(ex, x, op=S.SYMBOL, k=0)
            ex.assume(z3.Or(ty(x) == BoolT, ty(x) == IntT, ty(x) == RealT, S.Ty.is_BVT(ty(x))))
        if self.k > 1:
            ex.assume(z3.Distinct(self.vars))
        coll = list(self.vars)
        if self.spelling == "tuple":
            coll = tuple(coll)
        elif self.spelling == "iterator":
            coll = ex.call(W.builtins["iter"], [list(self.vars)], {})
        fi = W.repo.func(self.qualname)
        return W.wrap_func(fi, fi.module, bound=mgr), [coll, self.body], {}

    def check(self, ex, outcome):
        kind, r = outcome
        if kind == "raise":
            return [("no-exception", z3.BoolVal(False))]
        if not is_node(r):
            return [("returns-node", z3.BoolVal(False))]
        W = self.world
        W.touch(ex, r)
        if self.k == 0:
            return [("C04:no-variable-gives-the-body-itself", r == self.body)]
        goals = [("C04:quantifier-node-over-the-body", z3.And(S.op(r) == self.Kop, S.arg(r, S.K(0)) == self.body)),
                 ("C04:binds-the-variables-in-the-order-given", z3.And([S.nqv(r) == self.k] + [S.qv(r, S.K(i)) == x for i, x in enumerate(self.vars)])),
                 ("C03:result-type", ty(r) == BoolT)]
        return goals


_base_variants6b = variants


def variants(world, tier="quick", only=None):   # noqa: F811
    out = _base_variants6b(world, tier, only)
    for name in ("ForAll", "Exists"):
        for k in (0, 1, 2):
            for sp in ("list", "tuple", "iterator"):
                v = QuantifierCtorVariant(world, name, k, sp)
                if only and not any(o in v.name for o in only) and name not in only:
                    continue
                out.append(v)
    return out


# ---------------------------------------------------------------------------
# the remaining operators of FNode: reflected subtraction, division, unary minus and inversion
# ---------------------------------------------------------------------------
# (x / y goes through FormulaManager.Div, whose rewriting of a division by a constant is a C01 / C03 matter: not specified here)


class ReflectedSubVariant(Variant):
    """y.__rsub__(x)  (evaluated for `x - y` when x does not handle it): denotes x - y - the operands swap"""
    prop_ids = ("C06",)
    qualname = "pysmt.fnode.FNode.__rsub__"
    name = "infix:__rsub__"

    def __init__(self, world):
        self.world = world

    def setup(self, ex):
        W = self.world
        core.make_env(ex, W)
        self.x, self.y = z3.Const("left", Node), z3.Const("self_operand", Node)
        for n in (self.x, self.y):
            W.touch(ex, n)
            ex.assume(z3.Not(Ty.is_FunT(ty(n))))
        fi = W.repo.func(self.qualname)
        return W.wrap_func(fi, fi.module, bound=self.y), [self.x], {}

    def check(self, ex, outcome):
        xs = [self.x, self.y]
        isbv = is_bv(ty(self.y))
        a, b = SPECS["Minus"], SPECS["BVSub"]
        ok = z3.If(isbv, b.applicable(xs, []), a.applicable(xs, []))
        kind, r = outcome
        if kind == "raise":
            return [("C06:infix-raises-only-if-ill-formed", z3.Not(ok))]
        if not is_node(r):
            return [("returns-node", z3.BoolVal(False))]
        self.world.touch(ex, r)
        return [("C06:infix-ill-formed-rejected", ok),
                ("C06:infix-denotes-named-function", z3.Implies(ok, v(r) == z3.If(isbv, b.rval(xs, []), a.rval(xs, []))))]


class UnaryOperatorVariant(Variant):
    """-x  and  ~x : arithmetic negation / two's complement negation; Boolean negation / bit-wise complement"""
    prop_ids = ("C06",)

    def __init__(self, world, meth):
        self.world, self.meth = world, meth
        self.qualname = "pysmt.fnode.FNode." + meth
        self.name = "infix:" + meth

    def setup(self, ex):
        W = self.world
        core.make_env(ex, W)
        self.x = z3.Const("x0", Node)
        W.touch(ex, self.x)
        ex.assume(z3.Not(Ty.is_FunT(ty(self.x))))
        fi = W.repo.func(self.qualname)
        return W.wrap_func(fi, fi.module, bound=self.x), [], {}

    def check(self, ex, outcome):
        x = self.x
        isbv = is_bv(ty(x))
        if self.meth == "__neg__":
            ok = z3.Or(isbv, ty(x) == IntT, ty(x) == RealT)
            want = z3.If(isbv, SPECS["BVNeg"].rval([x], []), mknum(ty(x), -num(x)))
        else:
            ok = z3.Or(isbv, ty(x) == BoolT)
            want = z3.If(isbv, SPECS["BVNot"].rval([x], []), SPECS["Not"].rval([x], []))
        kind, r = outcome
        if kind == "raise":
            return [("C06:infix-raises-only-if-ill-formed", z3.Not(ok))]
        if not is_node(r):
            return [("returns-node", z3.BoolVal(False))]
        self.world.touch(ex, r)
        return [("C06:infix-ill-formed-rejected", ok), ("C03:result-type", z3.Implies(ok, ty(r) == ty(x))),
                ("C06:infix-denotes-named-function", z3.Implies(ok, v(r) == want))]


_base_variants6c = variants


def variants(world, tier="quick", only=None):   # noqa: F811
    out = _base_variants6c(world, tier, only)
    extra = [ReflectedSubVariant(world), UnaryOperatorVariant(world, "__neg__"), UnaryOperatorVariant(world, "__invert__")]
    for v_ in extra:
        if only and v_.name not in only and "infix" not in only:
            continue
        out.append(v_)
    return out


# ---------------------------------------------------------------------------
# the remaining named methods of FNode: x.Ite(t, e), x.BVExtract(i, j), x.BVRol(n), x.Select(i), x.Store(i, v) ...
# ---------------------------------------------------------------------------
FNODE_METHODS = {
    # method: (specification, extra node arguments, extra integer arguments, fixed trailing arguments)
    "Ite": ("Ite", 2, 0, []), "BVConcat": ("BVConcat", 1, 0, []), "BVExtract": ("BVExtract", 0, 2, []),
    "BVRol": ("BVRol", 0, 1, []), "BVRor": ("BVRor", 0, 1, []), "BVSExt": ("BVSExt", 0, 1, []), "BVZExt": ("BVZExt", 0, 1, []),
    "BVRepeat": ("BVRepeat[3]", 0, 0, [3]), "Select": ("Select", 1, 0, []), "Store": ("Store", 2, 0, []),
}


class FNodeMethodVariant(Variant):
    """x.<Method>(...) is the named constructor applied to x followed by the arguments in the order given."""
    prop_ids = ("C06", "C03")

    def __init__(self, world, meth):
        self.world, self.meth = world, meth
        self.qualname = "pysmt.fnode.FNode." + meth
        self.name = "method:" + meth

    def setup(self, ex):
        W = self.world
        core.make_env(ex, W)
        spn, nn, ni, fixed = FNODE_METHODS[self.meth]
        self.sp = SPECS[spn]
        self.xs = [z3.Const("x%d" % i, Node) for i in range(nn + 1)]
        self.ints = [z3.Const("n%d" % i, I) for i in range(ni)]
        for n in self.xs:
            W.touch(ex, n)
            ex.assume(z3.Not(Ty.is_FunT(ty(n))))
        fi = W.repo.func(self.qualname)
        return W.wrap_func(fi, fi.module, bound=self.xs[0]), list(self.xs[1:]) + list(self.ints) + list(fixed), {}

    def check(self, ex, outcome):
        sp = self.sp
        ok = sp.applicable(self.xs, self.ints)
        kind, r = outcome
        if kind == "raise":
            return [("C03:raises-only-if-ill-formed", z3.Not(ok)), ("C06:defined-on-every-well-formed-application", z3.Not(ok))]
        if not is_node(r):
            return [("returns-node", z3.BoolVal(False))]
        self.world.touch(ex, r)
        return [("C03:ill-formed-application-rejected", ok),
                ("C03:result-type", z3.Implies(ok, ty(r) == sp.rtype(self.xs, self.ints))),
                ("C06:denotes-named-function", z3.Implies(ok, v(r) == sp.rval(self.xs, self.ints)))]

    def witness(self, model, ex):
        from pyvc.concretize import node_to_json, as_int
        return {"fnode_method": self.meth, "args": [node_to_json(model, x, depth=2) for x in self.xs],
                "ints": [as_int(model, n) for n in self.ints]}


_base_variants6m = variants


def variants(world, tier="quick", only=None):   # noqa: F811
    out = _base_variants6m(world, tier, only)
    for m in FNODE_METHODS:
        if only and ("method:" + m) not in only and "method:" not in only:
            continue
        out.append(FNodeMethodVariant(world, m))
    return out
