"""C07: every callback of the two SMT-LIB printers writes the text that the
rendering table below prescribes for its operator.  The table is transcribed
from the SMT-LIB 2.6 standard (Core, Ints, Reals, Reals_Ints, FixedSizeBitVectors,
ArraysEx, Strings theories), independently of pysmt/smtlib/printers.py, and is
compared *token by token* (SMT-LIB white space is insignificant), so the
obligation does not depend on the printers' layout.

Text is a sequence of concrete characters and tracked pieces:
    child i            the text written for (or the let-name of) the i-th child
    sym n              the quoted spelling of symbol n's name   (utils.quote, bounded check)
    sort t             the SMT-LIB spelling of sort t           (PySMTType.as_smtlib, bounded check)
    int e              the decimal spelling of the non-negative integer e
    fresh              the name returned by SmtDagPrinter._new_symbol
That the table row of an operator denotes the operator's meaning is the
independent reader's job (native/smtlib_ref.py; bounded check smtlib_export)."""
import z3

from pyvc import sorts as S
from pyvc.sorts import Node, Ty, I, B
from pyvc.symex import Obj, Builtin, GenObj, is_node, is_z3, is_ty, PyRaise, ExcVal, PathAbort
from pyvc import builtins_impl as BI
from pyvc.harness import Variant
from pyvc.world import Contract
from . import core

DEADLINE = {"quick": 200, "thorough": 600}
REPLAY_KIND = "printer"
TREE = "pysmt.smtlib.printers.SmtPrinter"
DAG = "pysmt.smtlib.printers.SmtDagPrinter"
PH = "\x02"

# ---- the rendering table (SMT-LIB 2.6) ----------------------------------------------
NAMES = {
    S.AND: ("and",), S.OR: ("or",), S.NOT: ("not",), S.IMPLIES: ("=>",), S.IFF: ("=",), S.EQUALS: ("=",), S.ITE: ("ite",),
    S.PLUS: ("+",), S.MINUS: ("-",), S.TIMES: ("*",), S.LE: ("<=",), S.LT: ("<",), S.TOREAL: ("to_real",),
    S.BV_NOT: ("bvnot",), S.BV_AND: ("bvand",), S.BV_OR: ("bvor",), S.BV_XOR: ("bvxor",), S.BV_NEG: ("bvneg",),
    S.BV_ADD: ("bvadd",), S.BV_SUB: ("bvsub",), S.BV_MUL: ("bvmul",), S.BV_UDIV: ("bvudiv",), S.BV_UREM: ("bvurem",),
    S.BV_LSHL: ("bvshl",), S.BV_LSHR: ("bvlshr",), S.BV_ASHR: ("bvashr",), S.BV_ULT: ("bvult",), S.BV_ULE: ("bvule",),
    S.BV_SLT: ("bvslt",), S.BV_SLE: ("bvsle",), S.BV_CONCAT: ("concat",), S.BV_COMP: ("bvcomp",), S.BV_SDIV: ("bvsdiv",),
    S.BV_SREM: ("bvsrem",), S.BV_TONATURAL: ("bv2nat",), S.ARRAY_SELECT: ("select",), S.ARRAY_STORE: ("store",),
    S.STR_LENGTH: ("str.len",), S.STR_CONCAT: ("str.++",), S.STR_CHARAT: ("str.at",), S.STR_CONTAINS: ("str.contains",),
    S.STR_INDEXOF: ("str.indexof",), S.STR_REPLACE: ("str.replace",), S.STR_SUBSTR: ("str.substr",),
    S.STR_PREFIXOF: ("str.prefixof",), S.STR_SUFFIXOF: ("str.suffixof",),
    # 2.6 names and the 2.5 names they replaced (both are accepted readings of the same function)
    S.STR_TO_INT: ("str.to_int", "str.to.int"), S.INT_TO_STR: ("str.from_int", "int.to.str"),
}
INDEXED = {S.BV_EXTRACT: ("extract", ("i2", "i1")), S.BV_ROL: ("rotate_left", ("i1",)), S.BV_ROR: ("rotate_right", ("i1",)),
           S.BV_ZEXT: ("zero_extend", ("i1",)), S.BV_SEXT: ("sign_extend", ("i1",))}
NARY = {S.AND: (2, 3), S.OR: (2, 3), S.PLUS: (2, 3), S.TIMES: (2, 3), S.STR_CONCAT: (2, 3), S.FUNCTION: (1, 2)}
SKIPPED = {S.REAL_CONSTANT: "numerator / denominator of a symbolic Fraction", S.BV_CONSTANT: "binary digits of a symbolic value",
           S.STR_CONSTANT: "quote doubling in a symbolic string", S.ALGEBRAIC_CONSTANT: "no SMT-LIB spelling",
           S.POW: "no SMT-LIB spelling (pySMT extension 'pow')"}


def atom(*parts):
    return ("atom", tuple(parts))


def app(head_tokens, args):
    return ["("] + list(head_tokens) + list(args) + [")"]


class Pieces:
    """registry of tracked pieces for one path"""
    def __init__(self):
        self.items = []

    def new(self, kind, payload):
        self.items.append((kind, payload))
        return "%s%d%s" % (PH, len(self.items) - 1, PH)

    def lex(self, text):
        """text with placeholders -> tokens: '(' | ')' | ('atom', parts)"""
        out, i, n = [], 0, len(text)
        cur = []

        def flush():
            if cur:
                out.append(("atom", tuple(cur)))
                del cur[:]
        buf = []

        def flush_buf():
            if buf:
                cur.append("".join(buf))
                del buf[:]
        while i < n:
            c = text[i]
            if c in " \t\r\n":
                flush_buf()
                flush()
                i += 1
            elif c in "()":
                flush_buf()
                flush()
                out.append(c)
                i += 1
            elif c == PH:
                j = text.index(PH, i + 1)
                flush_buf()
                cur.append(self.items[int(text[i + 1:j])])
                i = j + 1
            else:
                buf.append(c)
                i += 1
        flush_buf()
        flush()
        return out


def match(ex, got, want):
    """-> z3 Bool: the token lists agree (structure concretely, tracked pieces by proof)"""
    if len(got) != len(want):
        return None
    conds = []
    for g, w in zip(got, want):
        if isinstance(g, str) or isinstance(w, str):
            if g != w:
                return None
            continue
        gp, wp = g[1], w[1]
        if len(wp) == 1 and isinstance(wp[0], tuple) and wp[0][0] == "oneof":
            if not (len(gp) == 1 and isinstance(gp[0], str) and gp[0] in wp[0][1]):
                return None
            continue
        if len(gp) != len(wp):
            return None
        for a, b in zip(gp, wp):
            if isinstance(a, str) or isinstance(b, str):
                if a != b:
                    return None
                continue
            if a[0] != b[0]:
                return None
            if a[0] == "int":
                conds.append(z3.And(a[1] == b[1], b[1] >= 0))
            elif a[0] == "fresh":
                if a[1] != b[1]:
                    return None
            else:
                conds.append(a[1] == b[1])
    return z3.And(conds) if conds else z3.BoolVal(True)


# ---- assumed contracts of the helpers the callbacks call -----------------------------------
class Quote(Contract):
    """utils.quote(name): the SMT-LIB spelling of the symbol called name (bounded check 'quote')"""
    qualname = "pysmt.utils.quote"

    def apply(self, ex, a, kw):
        nm = a[0]
        return ex.ghost["pieces"].new("qname", nm if is_z3(nm) else z3.StringVal(nm))


class AsSmtlib(Contract):
    qualname = "pysmt.typing.PySMTType.as_smtlib"


class TreeWalk(Contract):
    """TreeWalker.walk(child) from inside a callback: the child's text is written here"""
    qualname = TREE + "::walk"

    def apply(self, ex, a, kw):
        ex.ghost["trace"].append(ex.ghost["pieces"].new("node", a[1]))
        ex.ghost["recursive_walk"] = ex.ghost.get("recursive_walk", 0) + 1
        return None


class NewSymbol(Contract):
    """SmtDagPrinter._new_symbol(): a name not used as a symbol of the formula nor handed out before
    (proved separately: variant dag:_new_symbol)"""
    qualname = DAG + "._new_symbol"

    def apply(self, ex, a, kw):
        n = ex.ghost.get("fresh_count", 0)
        ex.ghost["fresh_count"] = n + 1
        return ex.ghost["pieces"].new("fresh", n)


class SubPrinter(Contract):
    """SmtDagPrinter(stream): a nested printer; its printer(body) writes the complete text of body"""
    qualname = "new:" + DAG

    def apply(self, ex, a, kw):
        return Obj(DAG, {"stream": a[0] if a else kw.get("stream"), "nested": True}, tag="subprinter")


class SubPrinterRun(Contract):
    qualname = DAG + ".printer"

    def apply(self, ex, a, kw):
        ex.ghost["trace"].append(ex.ghost["pieces"].new("node", a[1]))
        return None


def ty_as_smtlib(ex, t, funstyle=True):
    return ex.ghost["pieces"].new("sig" if funstyle else "sort", t)


class PrinterVariant(Variant):
    # C09: the text a callback writes is what the parser reads back - a callback that writes another index, spelling or child
    # order than the node's own breaks "parses back to the very same object" (per-operator lemma of contracts/c09_roundtrip.py
    # is stated over exactly this table row).  `C20:`-prefixed clauses are dropped for C07 / C09 by the harness.
    prop_ids = ("C07", "C09")

    def __init__(self, world, cls, Kop, k, target):
        self.world, self.cls, self.Kop, self.k = world, cls, Kop, k
        self.qualname = target
        self.dag = cls == DAG
        if self.dag:
            self.prop_ids = ("C07", "C09", "C20")
        self.name = "%s:%s[%s/%s]" % ("dag" if self.dag else "tree", target.rsplit(".", 1)[1], S.OPNAMES[Kop], k)
        if Kop in NARY or Kop in S.QUANT_OPS:
            self.bounded = "arity"

    def setup(self, ex):
        W = self.world
        env = core.make_env(ex, W)
        for c in (Quote(), TreeWalk(), NewSymbol(), SubPrinter(), SubPrinterRun()):
            c.world = W
            W.contracts[c.qualname] = c
        g = ex.ghost
        g["pieces"] = P = Pieces()
        g["trace"] = []
        W.config["str_int"] = lambda exx, v: P.new("int", v)
        W.config["ty_as_smtlib"] = ty_as_smtlib
        f = z3.Const("formula", Node)
        self.formula = f
        ex.assume(S.op(f) == self.Kop)
        W.learn(ex, f, op=self.Kop, k=self.k)
        self.children = [S.arg(f, S.K(i)) for i in range(self.k)]

        def write(exx, a, kw):
            s = a[0]
            if not isinstance(s, str):
                from pyvc.symex import Unsupported
                raise Unsupported("write of a non-concrete string %r" % (s,))
            exx.ghost["trace"].append(s)
            return None
        stream = Obj("io.TextIOBase", {}, tag="stream")
        self.printer = Obj(self.cls, {"stream": stream, "write": Builtin("stream.write", write), "mgr": env.fields["_formula_manager"],
                                      "annotations": None, "env": env, "openings": z3.Const("openings0", I),
                                      "name_seed": z3.Const("seed0", I), "template": ".def_%d", "names": None}, tag="printer")
        fi = W.repo.func(self.qualname)
        fn = W.wrap_func(fi, fi.module, bound=self.printer)
        if self.dag:
            self.keys = [P.new("node", c) for c in self.children]
            if self.Kop in S.QUANT_OPS:
                return fn, [f], {"args": None}
            return fn, [f], {"args": list(self.keys)}
        return fn, [f], {}

    # -- the table row for this node -----------------------------------------------------
    def child_tok(self, n):
        return atom(("node", n))

    def expected(self, ex):
        f, K, k = self.formula, self.Kop, self.k
        kids = [self.child_tok(c) for c in self.children]
        if K in NAMES:
            return app([atom(("oneof", NAMES[K]))] if len(NAMES[K]) > 1 else [atom(NAMES[K][0])], kids)
        if K == S.DIV:
            nm = "div" if ex.decide(S.type_of(f) == S.IntT) else "/"
            return app([atom(nm)], kids)
        if K in INDEXED:
            nm, idx = INDEXED[K]
            proj = {"i1": S.pl_i1, "i2": S.pl_i2}
            return app(["(", atom("_"), atom(nm)] + [atom(("int", proj[i](f))) for i in idx] + [")"], kids)
        if K == S.SYMBOL:
            return [atom(("qname", S.pl_str(f)))]
        if K == S.FUNCTION:
            return app([atom(("qname", S.pl_str(S.pl_node(f))))], kids)
        if K == S.BOOL_CONSTANT:
            return [atom("true" if ex.decide(S.pl_bool(f)) else "false")]
        if K == S.INT_CONSTANT:
            v = S.pl_int(f)
            if ex.decide(v < 0):
                return app([atom("-")], [atom(("int", -v))])
            return [atom(("int", v))]
        if K in S.QUANT_OPS:
            n = ex.ghost.get("qvars_len", {}).get(f.get_id())
            if n is None:
                n = BI.concretize_int(self.world, ex, S.nqv(f), 1, 2, "qvars-bound")
            binders = []
            for i in range(n):
                q = S.qv(f, S.K(i))
                name = atom(("qname", S.pl_str(q)))       # a binder is a name, not a term
                binders += ["(", name, atom(("sort", S.pl_ty(q))), ")"]
            return app([atom("forall" if K == S.FORALL else "exists")], ["("] + binders + [")"] + kids)
        if K == S.ARRAY_VALUE:
            # ((as const SORT) default) wrapped in one store per assignment, in the order of the node's arguments
            t = ["(", "(", atom("as"), atom("const"), atom(("sort", S.type_of(f))), ")", kids[0], ")"]
            for i in range(1, k, 2):
                t = ["(", atom("store")] + t + [kids[i], kids[i + 1], ")"]
            return t
        return None

    def check(self, ex, outcome):
        kind, r = outcome
        if kind == "raise":
            return [("no-exception", z3.BoolVal(False))]
        P = ex.ghost["pieces"]
        if not self.dag:
            if isinstance(r, GenObj):
                ex.drive(r, lambda v: ex.ghost["trace"].append(P.new("node", v)))
            elif r is not None:
                return [("callback-returns-generator-or-none", z3.BoolVal(False))]
            got = P.lex("".join(ex.ghost["trace"]))
            want = self.expected(ex)
            if want is None:
                return []
            m = match(ex, got, want)
            return [("text-is-the-table-row", m if m is not None else z3.BoolVal(False))]
        # DAG printer: either a let binding written + its name returned, or the application returned inline
        if not isinstance(r, str):
            return [("callback-returns-text", z3.BoolVal(False))]
        want = self.expected(ex)
        if want is None:
            return []
        written = P.lex("".join(ex.ghost["trace"]))
        ret = P.lex(r)
        op0 = z3.Const("openings0", I)
        op1 = self.printer.fields["openings"]
        op1 = op1 if is_z3(op1) else z3.IntVal(op1)
        if not written:
            m = match(ex, ret, want)
            goals = [("text-is-the-table-row", m if m is not None else z3.BoolVal(False)),
                     ("open-parentheses-counted", op1 == op0)]
            if self.k >= 1:
                # the text of an application handed back inline is copied into every parent that refers to it: the output
                # of a shared DAG then grows like its tree.  Only leaves may be returned as text; an application is bound
                # to a let name
                goals.append(("C20:application-is-bound-to-a-name-not-copied", z3.BoolVal(False)))
            return goals
        n = ex.ghost.get("fresh_count", 0)
        if n != 1:
            return [("one-let-name-per-binding", z3.BoolVal(False))]
        sym = atom(("fresh", 0))
        m = match(ex, written, ["(", atom("let"), "(", "(", sym] + want + [")", ")"])
        m2 = match(ex, ret, [sym])
        return [("let-binding-is-the-table-row", m if m is not None else z3.BoolVal(False)),
                ("returns-the-let-name", m2 if m2 is not None else z3.BoolVal(False)),
                ("open-parentheses-counted", op1 == op0 + 1)]

    def witness(self, model, ex):
        from pyvc.concretize import node_to_json
        return {"printer": "dag" if self.dag else "tree", "op": S.OPNAMES[self.Kop], "formula": node_to_json(model, self.formula, 1),
                "written": [t if isinstance(t, str) else str(t) for t in ex.ghost.get("trace", [])][:40]}


def variants(world, tier="quick", only=None):
    out = []
    for cls in (TREE, DAG):
        disp = world.repo.dispatch(cls)
        for Kop in range(S.NOPS):
            if Kop in SKIPPED:
                continue
            target = disp.get(Kop)
            if target is None or target.endswith("walk_error"):
                continue
            if Kop == S.ARRAY_VALUE:
                ks = (1, 3, 5) if cls == DAG else ()        # tree printer sorts the assignments by str(): bounded only
            elif Kop in NARY:
                ks = NARY[Kop]
            else:
                ks = (S.FIXED_ARITY.get(Kop),)
            for k in ks:
                v = PrinterVariant(world, cls, Kop, k, target)
                if only and not any(o in v.name for o in only):
                    continue
                out.append(v)
    return out


# ---------------------------------------------------------------------------
# SmtDagPrinter: fresh let-names (loop invariant) and the closing of the lets
# ---------------------------------------------------------------------------
StrSet = z3.SetSort(z3.StringSort())


class NewSymbolVariant(Variant):
    """_new_symbol(): the name returned is '.def_<n>' for an index n not below the counter on entry,
    it is not the (quoted) name of a free symbol of the formula, and the counter moves past n -
    so it differs from every name handed out before (indices below the old counter) and after.
    The search loop is covered by an inductive invariant: all iterations."""
    prop_ids = ("C07", "C09")        # (a let name that clashes with a symbol of the formula breaks the print / parse round trip)
    qualname = DAG + "._new_symbol"
    name = "dag:_new_symbol"

    def __init__(self, world):
        self.world = world

    def setup(self, ex):
        from pyvc.loops import LoopInvariant
        W = self.world
        self.names = z3.Const("names", StrSet)
        self.s0 = z3.Const("seed0", I)
        ex.assume(self.s0 >= 0)
        p = Obj(DAG, {"names": self.names, "name_seed": self.s0, "template": ".def_%d", "openings": 0}, tag="printer")
        self.p = p

        def havoc(exx, fr):
            p.fields["name_seed"] = exx.fresh("seed", I)

        def inv(exx, fr):
            return [("counter-never-moves-back", BI.to_int(p.fields["name_seed"]) >= self.s0)]
        W.loop_contracts[(self.qualname, 0)] = LoopInvariant(havoc, inv, name="search")
        fi = W.repo.func(self.qualname)
        return W.wrap_func(fi, fi.module, bound=p), [], {}

    def check(self, ex, outcome):
        kind, r = outcome
        if kind == "raise":
            return [("no-exception", z3.BoolVal(False))]
        s1 = BI.to_int(self.p.fields["name_seed"])
        r = r if is_z3(r) else z3.StringVal(r)
        n = s1 - 1
        return [("not-a-symbol-of-the-formula", z3.Not(z3.IsMember(r, self.names))),
                ("counter-moves-past-the-name", z3.And(n >= self.s0, r == z3.Concat(z3.StringVal(".def_"), z3.IntToStr(n))))]


class DagWalkContract(Contract):
    """DagWalker.walk(f) on the printer: writes the let-openings of f's sub-terms, counts them in
    `openings` (callback contracts above) and returns the name / text standing for f"""
    qualname = DAG + "::walk"

    def apply(self, ex, a, kw):
        p, f = a[0], a[1]
        g = ex.ghost
        g["trace"].append(g["pieces"].new("lets", f))
        n = ex.fresh("opened", I)
        ex.assume(n >= 0)
        g["opened"] = n
        p.fields["openings"] = BI.to_int(p.fields["openings"]) + n
        return g["pieces"].new("key", f)


class FreeVarsSet(Contract):
    qualname = "pysmt.fnode.FNode.get_free_variables"

    def apply(self, ex, a, kw):
        return S.fv(a[0])


class PrinterTopVariant(Variant):
    """SmtDagPrinter.printer(f): resets the counters, collects the quoted names of f's free symbols,
    then writes <let openings> <key> and exactly as many ')' as lets were opened."""
    prop_ids = ("C07",)
    qualname = DAG + ".printer"
    name = "dag:printer"
    bounded = "arity"

    def __init__(self, world):
        self.world = world

    def setup(self, ex):
        W = self.world
        env = core.make_env(ex, W)
        for c in (Quote(), DagWalkContract(), FreeVarsSet()):
            c.world = W
            W.contracts[c.qualname] = c
        g = ex.ghost
        g["pieces"] = P = Pieces()
        g["trace"] = []
        g["enumerate_sets"] = True
        W.config["str_repeat"] = lambda exx, s, n: P.new("repeat", (s, n))
        f = z3.Const("formula", Node)
        self.formula = f
        W.touch(ex, f)

        def write(exx, a, kw):
            exx.ghost["trace"].append(a[0])
            return None
        self.p = Obj(DAG, {"stream": None, "write": Builtin("stream.write", write), "annotations": None,
                           "openings": z3.Const("stale_openings", I), "name_seed": z3.Const("stale_seed", I),
                           "template": ".def_%d", "names": None}, tag="printer")
        fi = W.repo.func(self.qualname)
        return W.wrap_func(fi, fi.module, bound=self.p), [f], {}

    def check(self, ex, outcome):
        kind, r = outcome
        if kind == "raise":
            return [("no-exception", z3.BoolVal(False))]
        P = ex.ghost["pieces"]
        toks = P.lex("".join(ex.ghost["trace"]))
        goals = []
        parts = [p for t in toks if t not in ("(", ")") for p in t[1]]
        ok = len(parts) == 3 and all(isinstance(p, tuple) for p in parts) and not any(t in ("(", ")") for t in toks)
        if not ok:
            return [("writes-openings-key-closings", z3.BoolVal(False))]
        a, b, c = parts
        shape = a[0] == "lets" and b[0] == "key" and c[0] == "repeat" and c[1][0] == ")"
        goals.append(("writes-openings-key-closings", z3.BoolVal(bool(shape))))
        if shape:
            goals.append(("closes-every-opened-let", BI.to_int(c[1][1]) == ex.ghost["opened"]))
        # names = quoted names of exactly the free symbols
        names = self.p.fields["names"]
        els = ex.ghost.get("set_elements", [])
        items = BI.iterate(self.world, ex, names) if names is not None else None
        if items is None:
            goals.append(("names-collected", z3.BoolVal(False)))
        else:
            qn = []
            for x in items:
                t = P.lex(x)
                if len(t) == 1 and len(t[0][1]) == 1 and isinstance(t[0][1][0], tuple) and t[0][1][0][0] == "qname":
                    qn.append(t[0][1][0][1])
                else:
                    qn = None
                    break
            if qn is None:
                goals.append(("names-are-quoted-symbol-names", z3.BoolVal(False)))
            else:
                goals.append(("names-cover-free-symbols",
                              z3.And([z3.Or([q == S.pl_str(e) for q in qn]) if qn else z3.BoolVal(False) for e in els])
                              if els else z3.BoolVal(True)))
                goals.append(("names-only-free-symbols",
                              z3.And([z3.Or([q == S.pl_str(e) for e in els]) if els else z3.BoolVal(False) for q in qn])
                              if qn else z3.BoolVal(True)))
        return goals


# ---------------------------------------------------------------------------
# SmtLibCommand.serialize: command syntax
# ---------------------------------------------------------------------------
CMD = "pysmt.smtlib.script.SmtLibCommand"


class PrinterRun(Contract):
    """printer.printer(term): the complete text of the term (callback contracts above)"""
    qualname = TREE + ".printer"

    def apply(self, ex, a, kw):
        ex.ghost["trace"].append(ex.ghost["pieces"].new("node", a[1]))
        return None


class SerializeVariant(Variant):
    prop_ids = ("C07", "C09")          # the text of a command is what the script round trip (C09) reads back
    qualname = CMD + ".serialize"

    def __init__(self, world, cmd, nargs=0):
        self.world, self.cmd, self.nargs = world, cmd, nargs
        self.name = "serialize:%s/%d" % (cmd, nargs)
        if cmd == "define-fun":
            self.replay_kind = "roundtrip"      # scripts with definitions are written and read back by that search

    def setup(self, ex):
        W = self.world
        env = core.make_env(ex, W)
        for c in (Quote(), PrinterRun(), SubPrinterRun()):
            c.world = W
            W.contracts[c.qualname] = c
        g = ex.ghost
        g["pieces"] = P = Pieces()
        g["trace"] = []
        W.config["str_int"] = lambda exx, v: P.new("int", v)
        W.config["ty_as_smtlib"] = lambda exx, t, funstyle=True: P.new("sig" if funstyle else "sort", t)

        def write(exx, a, kw):
            s = a[0]
            if is_z3(s) and s.sort() == z3.StringSort():
                # a text built from a symbolic name that did not pass through quote(): an unquoted spelling (one raw piece)
                exx.ghost["trace"].append(exx.ghost["pieces"].new("raw", s))
                return None
            if not isinstance(s, str):
                from pyvc.symex import Unsupported
                raise Unsupported("write of a non-concrete string %r" % (s,))
            exx.ghost["trace"].append(s)
            return None
        stream = Obj("io.TextIOBase", {"write": Builtin("stream.write", write)}, tag="stream")
        printer = Obj(TREE, {"stream": stream}, tag="printer")
        self.terms = [z3.Const("t%d" % i, Node) for i in range(self.nargs)]
        for t in self.terms:
            W.touch(ex, t)
        c = self.cmd
        if c in ("assert",):
            args = [self.terms[0]]
        elif c == "get-value":
            args = list(self.terms)
        elif c in ("declare-fun", "declare-const"):
            sym = self.terms[0]
            ex.assume(S.op(sym) == S.SYMBOL)
            W.learn(ex, sym, op=S.SYMBOL, k=0)
            args = [sym]
        elif c in ("push", "pop"):
            self.n = z3.Const("levels", I)
            ex.assume(self.n >= 0)
            args = [self.n]
        elif c == "declare-sort":
            self.sname = P.new("sortname", 0)
            self.arity = z3.Const("arity", I)
            ex.assume(self.arity >= 0)
            args = [Obj("pysmt.typing._TypeDecl", {"name": self.sname, "arity": self.arity, "custom_type": True})]
        elif c == "set-logic":
            self.logic = P.new("logicname", 0)
            args = [self.logic]
        elif c == "define-fun":
            # (define-fun NAME ((p S) ...) S body): nargs parameters (symbols) + the body
            self.params = self.terms
            for sym in self.params:
                ex.assume(S.op(sym) == S.SYMBOL)
                W.learn(ex, sym, op=S.SYMBOL, k=0)
            self.fname = z3.Const("defined_name", z3.StringSort())
            self.rtype = z3.Const("return_sort", Ty)
            self.body = z3.Const("body", Node)
            W.touch(ex, self.body)
            args = [self.fname, list(self.params), self.rtype, self.body]
        else:
            args = []
        cmdo = Obj(CMD, {"name": c, "args": args}, tag="cmd")
        fi = W.repo.method(CMD, "serialize")
        return W.wrap_func(fi, fi.module, bound=cmdo), [], {"printer": printer}

    def check(self, ex, outcome):
        kind, r = outcome
        if kind == "raise":
            return [("no-exception", z3.BoolVal(False))]
        P = ex.ghost["pieces"]
        got = P.lex("".join(ex.ghost["trace"]))
        c = self.cmd
        if c == "assert":
            want = ["(", atom("assert"), atom(("node", self.terms[0])), ")"]
        elif c == "get-value":
            want = ["(", atom("get-value"), "("] + [atom(("node", t)) for t in self.terms] + [")", ")"]
        elif c == "declare-fun":
            s = self.terms[0]
            want = ["(", atom("declare-fun"), atom(("qname", S.pl_str(s))), atom(("sig", S.pl_ty(s))), ")"]
        elif c == "declare-const":
            # declare-const takes a sort, not a signature: only meaningful for non-function symbols; the
            # signature piece '() S' would be wrong here
            s = self.terms[0]
            want = ["(", atom("declare-const"), atom(("qname", S.pl_str(s))), atom(("sort", S.pl_ty(s))), ")"]
        elif c in ("push", "pop"):
            want = ["(", atom(c), atom(("int", self.n)), ")"]
        elif c == "declare-sort":
            want = ["(", atom("declare-sort"), atom(("sortname", 0)), atom(("int", self.arity)), ")"]
        elif c == "set-logic":
            want = ["(", atom("set-logic"), atom(("logicname", 0)), ")"]
        elif c == "define-fun":
            want = ["(", atom("define-fun"), atom(("qname", self.fname)), "("]
            for sym in self.params:
                want += ["(", atom(("qname", S.pl_str(sym))), atom(("sort", S.pl_ty(sym))), ")"]
            want += [")", atom(("sort", self.rtype)), atom(("node", self.body)), ")"]
        else:
            want = ["(", atom(c), ")"]
        m = match(ex, got, want)
        return [("command-syntax", m if m is not None else z3.BoolVal(False))]


_base_variants = variants


def variants(world, tier="quick", only=None):
    out = _base_variants(world, tier, only)
    extra = [NewSymbolVariant(world), PrinterTopVariant(world)]
    for c, n in (("assert", 1), ("get-value", 1), ("get-value", 2), ("declare-fun", 1), ("declare-const", 1), ("push", 0), ("pop", 0),
                 ("declare-sort", 0), ("set-logic", 0), ("check-sat", 0), ("exit", 0), ("reset-assertions", 0),
                 ("get-model", 0), ("define-fun", 0), ("define-fun", 1), ("define-fun", 2)):
        extra.append(SerializeVariant(world, c, n))
    if only:
        extra = [v for v in extra if any(o in v.name for o in only)]
    return out + extra


# ---------------------------------------------------------------------------
# smtlibscript_from_formula: everything is declared, once, before the assertion
# ---------------------------------------------------------------------------
SCRIPT = "pysmt.smtlib.script.SmtLibScript"


class NewCommand(Contract):
    qualname = "new:" + CMD

    def apply(self, ex, a, kw):
        name = kw.get("name", a[0] if a else None)
        args = kw.get("args", a[1] if len(a) > 1 else None)
        return Obj(CMD, {"name": name, "args": args}, tag="cmd")


class GetLogic(Contract):
    qualname = "pysmt.oracles.get_logic"

    def apply(self, ex, a, kw):
        return Obj("builtins.object", {"name": "detected-logic"}, tag="logic")


class CloserSmtlibLogic(Contract):
    """get_closer_smtlib_logic: a logic object or NoLogicAvailableError (C13)"""
    qualname = "pysmt.logics.get_closer_smtlib_logic"

    def apply(self, ex, a, kw):
        if ex.decide(ex.fresh("no_logic_available", B)):
            raise PyRaise(ExcVal("NoLogicAvailableError", ("no logic",)))
        return Obj("builtins.object", {"name": "smtlib-logic"}, tag="logic")


class Warn(Contract):
    qualname = "warnings.warn"

    def apply(self, ex, a, kw):
        return None


class GetTypes(Contract):
    """TypesOracle.get_types(f, custom_only=True): the custom sorts occurring in f, component sorts first (C12).
    Modelled as a list of 0..2 custom sorts; two instances of one parametric sort share their declaration."""
    qualname = "pysmt.oracles.TypesOracle.get_types"

    def apply(self, ex, a, kw):
        n = ex.ghost["ntypes"]
        ts = [z3.Const("sort%d" % i, Ty) for i in range(n)]
        for t in ts:
            ex.assume(Ty.is_CustomT(t))
        if n > 1:
            ex.assume(z3.Distinct(ts))
        ex.ghost["types"] = ts
        return list(ts)


class ScriptFromFormulaVariant(Variant):
    prop_ids = ("C07",)
    qualname = "pysmt.smtlib.script.smtlibscript_from_formula"
    bounded = "arity"

    def __init__(self, world, ntypes, explicit_logic):
        self.world, self.ntypes, self.explicit = world, ntypes, explicit_logic
        self.name = "script_from_formula[%d sorts%s]" % (ntypes, "/explicit-logic" if explicit_logic else "")

    def setup(self, ex):
        W = self.world
        env = core.make_env(ex, W)
        for c in (NewCommand(), GetLogic(), CloserSmtlibLogic(), Warn(), GetTypes(), FreeVarsSet()):
            c.world = W
            W.contracts[c.qualname] = c
        g = ex.ghost
        g["ntypes"] = self.ntypes
        g["enumerate_sets"] = True
        f = z3.Const("formula", Node)
        self.formula = f
        W.touch(ex, f)
        fi = W.repo.func(self.qualname)
        lg = "QF_LIA" if self.explicit else None       # a logic given by name
        if self.explicit:
            W.custom_globals[("pysmt.smtlib.script", "SMTLIB2_LOGICS")] = [lg]
        return W.wrap_func(fi, fi.module), [f], {"logic": lg}

    def check(self, ex, outcome):
        kind, r = outcome
        if kind == "raise":
            return [("no-exception", z3.BoolVal(False))]
        if not isinstance(r, Obj) or "commands" not in r.fields:
            return [("returns-script", z3.BoolVal(False))]
        cmds = r.fields["commands"]
        names = [c.fields["name"] for c in cmds]
        goals = []
        # shape: set-logic, declare-sort*, declare-fun*, assert f, check-sat
        i = 0
        ok = len(names) >= 3 and names[0] == "set-logic" and names[-1] == "check-sat" and names[-2] == "assert"
        goals.append(("shape:set-logic-first-assert-last", z3.BoolVal(bool(ok))))
        if not ok:
            return goals
        body = cmds[1:-2]
        kinds = [c.fields["name"] for c in body]
        nsort = sum(1 for k in kinds if k == "declare-sort")
        ordered = kinds == ["declare-sort"] * nsort + ["declare-fun"] * (len(kinds) - nsort)
        goals.append(("sorts-declared-before-symbols", z3.BoolVal(ordered)))
        goals.append(("asserts-the-formula", cmds[-2].fields["args"][0] == self.formula))
        decls = [c.fields["args"][0] for c in body if c.fields["name"] == "declare-sort"]
        syms = [c.fields["args"][0] for c in body if c.fields["name"] == "declare-fun"]
        ts = ex.ghost.get("types", [])
        # every custom sort of f has its declaration, exactly once
        for j, t in enumerate(ts):
            goals.append(("sort-%d-declared" % j, z3.Or([BI.to_int(d) == S.ty_decl(t) for d in decls]) if decls else z3.BoolVal(False)))
        if len(decls) > 1:
            goals.append(("no-sort-declared-twice", z3.Distinct([BI.to_int(d) for d in decls])))
        for d in decls:
            goals.append(("only-sorts-of-the-formula", z3.Or([BI.to_int(d) == S.ty_decl(t) for t in ts]) if ts else z3.BoolVal(False)))
        els = ex.ghost.get("set_elements", [])
        for j, e in enumerate(els):
            goals.append(("symbol-%d-declared" % j, z3.Or([s == e for s in syms]) if syms else z3.BoolVal(False)))
        if len(syms) > 1:
            goals.append(("no-symbol-declared-twice", z3.Distinct(syms)))
        for s in syms:
            goals.append(("only-free-symbols-declared", z3.IsMember(s, S.fv(self.formula))))
        return goals


_base_variants2 = variants


def variants(world, tier="quick", only=None):
    out = _base_variants2(world, tier, only)
    extra = [ScriptFromFormulaVariant(world, n, e) for n in (0, 1, 2) for e in (False, True)]
    if only:
        extra = [v for v in extra if any(o in v.name for o in only)]
    return out + extra


def extras(prop, tier, seed):
    """bounded stand-ins (never counted as proved): whole formulas / scripts through both printers read by the
    independent reader of the standard; quote() and sort spellings exhaustively up to a length"""
    if prop != "C07":
        return []
    from pyvc.report import run_bounded
    return [run_bounded("smtlib_export", tier, seed), run_bounded("quote", tier, seed)]


# ---------------------------------------------------------------------------
# sort spellings from pysmt/typing.py itself (as_smtlib of the type objects, run from source)
# ---------------------------------------------------------------------------
class SortSpellingVariant(Variant):
    """PySMTType.as_smtlib on type objects built by the real constructors: a sort constant (built-in or declared with arity 0)
    is written as its name, an instance of a sort constructor as `(name arg ...)` - never a parenthesised name without
    arguments, which is not an SMT-LIB sort; with funstyle=True the text is prefixed by the empty parameter list."""
    prop_ids = ("C07",)

    def __init__(self, world, what, funstyle):
        self.world, self.what, self.funstyle = world, what, funstyle
        self.qualname = "pysmt.typing.PySMTType.as_smtlib"
        self.name = "sort-text:%s[%s]" % (what, "declaration" if funstyle else "term")

    def setup(self, ex):
        from pyvc.symex import ClassRef
        W = self.world
        for q in [q for q in list(W.contracts) + list(W.builtins) if str(q).startswith("new:pysmt.typing.")]:
            W.contracts.pop(q, None)
        Str_ = z3.StringSort()
        if self.what in ("Int", "Bool", "Real", "String"):
            cls = {"Int": "_IntType", "Bool": "_BoolType", "Real": "_RealType", "String": "_StringType"}[self.what]
            self.o = W.instantiate(ex, ClassRef("pysmt.typing." + cls), [], {})
            self.want = z3.StringVal(self.what)
        else:
            name = z3.Const("declared_name", Str_)
            ex.assume(z3.Length(name) > 0)
            n = 0 if self.what == "declared-constant" else 1
            decl = W.instantiate(ex, ClassRef("pysmt.typing._TypeDecl"), [name, n], {})
            ex.call(W.getattr(ex, decl, "set_custom_type_flag"), [], {})
            if n == 0:
                self.o = W.instantiate(ex, ClassRef("pysmt.typing.PySMTType"), [], {"decl": decl, "args": ()})
                self.want = name
            else:
                arg = W.instantiate(ex, ClassRef("pysmt.typing._IntType"), [], {})
                self.o = W.instantiate(ex, ClassRef("pysmt.typing.PySMTType"), [], {"decl": decl, "args": (arg,)})
                self.want = z3.Concat(z3.StringVal("("), name, z3.StringVal(" Int)"))
        fi = W.repo.method(self.o.cls, "as_smtlib")
        return W.wrap_func(fi, fi.module, bound=self.o), [], {"funstyle": self.funstyle}

    def check(self, ex, outcome):
        kind, r = outcome
        if kind == "raise":
            return [("no-exception", z3.BoolVal(False))]
        from pyvc import builtins_impl as BI_
        want = z3.Concat(z3.StringVal("() "), self.want) if self.funstyle else self.want
        try:
            got = BI_.to_str(r)
        except Exception:
            return [("returns-text", z3.BoolVal(False))]
        return [("sort-written-as-smtlib-requires", got == want)]


_base_variants7z = variants


def variants(world, tier="quick", only=None):
    out = _base_variants7z(world, tier, None)
    for what in ("Int", "Bool", "Real", "String", "declared-constant", "declared-instance"):
        for fs in (False, True):
            out.append(SortSpellingVariant(world, what, fs))
    if only:
        out = [v for v in out if any(o in v.name for o in only)]
    return out
