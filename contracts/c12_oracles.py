"""C12: each callback of the formula analyses computes its case of the
recursive definition (free symbols, atoms, quantifier-freeness, sorts, sizes),
given the definition's value at the children.  The definitions below are
written from the property statement, independently of pysmt/oracles.py."""
import z3

from pyvc import sorts as S
from pyvc.sorts import Node, Ty, NodeSet, TySet, I, B
from pyvc.symex import is_z3, is_zset, SetVal, Obj
from pyvc import builtins_impl as BI
from pyvc.harness import Variant
from . import core

DEADLINE = {"quick": 120, "thorough": 600}
REPLAY_KIND = "oracle"
ARITIES = {S.AND: (2, 3), S.OR: (2, 3), S.PLUS: (2, 3), S.TIMES: (2, 3), S.STR_CONCAT: (2, 3),
           S.FUNCTION: (1, 2), S.ARRAY_VALUE: (1, 3)}
BOOL_STRUCT = (S.AND, S.OR, S.NOT, S.IMPLIES, S.IFF, S.FORALL, S.EXISTS)
RELATIONS = (S.EQUALS, S.BV_ULE, S.BV_ULT, S.BV_SLT, S.BV_SLE, S.LE, S.LT, S.STR_CONTAINS, S.STR_PREFIXOF,
             S.STR_SUFFIXOF)


def union(sets, sort=Node):
    z = z3.EmptySet(sort)
    for s in sets:
        z = z3.SetUnion(z, s)
    return z


def as_zset(ex, world, v, dom=Node):
    if is_zset(v):
        return v
    if isinstance(v, (SetVal, set, frozenset)):
        return BI.set_to_z3(world, ex, v, dom)
    return None


class OracleVariant(Variant):
    prop_ids = ("C12",)
    walker = None
    tag = None

    def __init__(self, world, Kop, k, target):
        self.world, self.Kop, self.k = world, Kop, k
        self.qualname = target
        self.name = "%s:%s[%s/%d]" % (self.tag, target.rsplit(".", 1)[1], S.OPNAMES[Kop], k)
        if Kop in ARITIES:
            self.bounded = "arity"

    def walker_obj(self, env):
        raise NotImplementedError

    def mkargs(self, ex):
        raise NotImplementedError

    def expected(self, ex):
        """-> python value / z3 term the callback must return"""
        raise NotImplementedError

    def extra_kwargs(self):
        return {}

    def setup(self, ex):
        W = self.world
        env = core.make_env(ex, W)
        f = z3.Const("formula", Node)
        self.formula = f
        ex.assume(S.op(f) == self.Kop)
        W.learn(ex, f, op=self.Kop, k=self.k)
        self.children = [S.arg(f, S.K(i)) for i in range(self.k)]
        self.args = self.mkargs(ex)
        fi = W.repo.func(self.qualname)
        fn = W.wrap_func(fi, fi.module, bound=self.walker_obj(env))
        kw = {"args": list(self.args)}
        kw.update(self.extra_kwargs())
        # callbacks that do not take `args` get it through **kwargs like at run time
        return fn, [f], kw

    def check(self, ex, outcome):
        kind, r = outcome
        if kind == "raise":
            return [("no-exception", z3.BoolVal(False))]
        return self.compare(ex, r, self.expected(ex))

    def compare(self, ex, r, want):
        if want is None or r is None:
            return [("equals-definition", z3.BoolVal(r is None and want is None))]
        if isinstance(want, (bool, int)) and isinstance(r, (bool, int)):
            return [("equals-definition", z3.BoolVal(r == want))]
        if is_zset(want):
            rz = as_zset(ex, self.world, r, want.sort().domain())
            if rz is None:
                return [("equals-definition", z3.BoolVal(False))]
            return [("equals-definition", rz == want)]
        c = BI._eq(self.world, ex, r, want)
        return [("equals-definition", c if is_z3(c) else z3.BoolVal(bool(c)))]

    def witness(self, model, ex):
        from pyvc.concretize import node_to_json
        return {"op": S.OPNAMES[self.Kop], "formula": node_to_json(model, self.formula, 1)}


# ---- free symbols -----------------------------------------------------------
class FreeVarsVariant(OracleVariant):
    walker, tag = "pysmt.oracles.FreeVarsOracle", "fv"
    prop_ids = ("C12", "C14")

    def compare(self, ex, r, want):
        goals = OracleVariant.compare(self, ex, r, want)
        # the memoised answer is handed to every later caller: it must not be a mutable object
        immutable = isinstance(r, frozenset) or (isinstance(r, SetVal) and r.frozen) or \
            (is_zset(r) and r.get_id() not in ex.ghost.get("mutable_zsets", set()))
        goals.append(("C14:memoised-answer-is-immutable", z3.BoolVal(bool(immutable))))
        return goals

    def walker_obj(self, env):
        return env.fields["_fvo"]

    def mkargs(self, ex):
        return [z3.Const("fv%d" % i, NodeSet) for i in range(self.k)]

    def expected(self, ex):
        f = self.formula
        if self.Kop == S.SYMBOL:
            return z3.SetAdd(z3.EmptySet(Node), f)
        if self.Kop in S.CONSTANT_OPS:
            return z3.EmptySet(Node)
        if self.Kop in S.QUANT_OPS:
            return z3.SetDifference(self.args[0], S.qvset(f))
        if self.Kop == S.FUNCTION:
            return z3.SetAdd(union(self.args), S.pl_node(f))
        return union(self.args)


# ---- quantifier freeness -------------------------------------------------------
class QfVariant(OracleVariant):
    walker, tag = "pysmt.oracles.QuantifierOracle", "qf"

    def walker_obj(self, env):
        return env.fields["_qfo"]

    def mkargs(self, ex):
        return [z3.Const("qf%d" % i, B) for i in range(self.k)]

    def expected(self, ex):
        if self.Kop in S.QUANT_OPS:
            return False
        return z3.And(self.args) if self.args else True

    def compare(self, ex, r, want):
        t = ex.truth(r)
        t = t if is_z3(t) else z3.BoolVal(bool(t))
        w = want if is_z3(want) else z3.BoolVal(bool(want))
        return [("equals-definition", t == w)]


# ---- atoms -------------------------------------------------------------------------
class AtomsVariant(OracleVariant):
    """atoms(n) is defined for Bool-typed n only (None otherwise): the union over the
    children for connectives, quantifiers and Boolean ITE; {} for a Boolean constant;
    {n} for every other Bool-typed node."""
    walker, tag = "pysmt.oracles.AtomsOracle", "atoms"

    def walker_obj(self, env):
        return env.fields["_ao"]

    def mkargs(self, ex):
        out = []
        for i, c in enumerate(self.children):
            if ex.decide(S.type_of(c) == S.BoolT):
                out.append(z3.Const("at%d" % i, NodeSet))
            else:
                out.append(None)
        return out

    def expected(self, ex):
        f = self.formula
        if not ex.decide(S.type_of(f) == S.BoolT):
            return None
        if self.Kop in BOOL_STRUCT or self.Kop == S.ITE:
            return union([a for a in self.args if a is not None])
        if self.Kop == S.BOOL_CONSTANT:
            return z3.EmptySet(Node)
        return z3.SetAdd(z3.EmptySet(Node), f)


# ---- sorts ----------------------------------------------------------------------------
class TypesVariant(OracleVariant):
    """sorts(n): sort of every symbol, constant and bound variable, the return and
    parameter sorts of applied functions, the index sort of constant arrays."""
    walker, tag = "pysmt.oracles.TypesOracle", "sorts"

    def walker_obj(self, env):
        return env.fields["_typeso"]

    def mkargs(self, ex):
        return [z3.Const("ts%d" % i, TySet) for i in range(self.k)]

    def expected(self, ex):
        f = self.formula
        E = z3.EmptySet(Ty)
        if self.Kop == S.SYMBOL:
            return z3.SetAdd(E, S.pl_ty(f))
        if self.Kop in S.CONSTANT_OPS:
            return z3.SetAdd(E, S.type_of(f))
        if self.Kop == S.FUNCTION:
            fid = Ty.fid(S.pl_ty(S.pl_node(f)))
            z = z3.SetAdd(union(self.args, Ty), S.fun_ret(fid))      # the sorts inside the arguments count too
            for i in range(self.k):
                z = z3.SetAdd(z, S.fun_param(fid, S.K(i)))
            return z
        if self.Kop in S.QUANT_OPS:
            qs = BI.iterate(self.world, ex, BI.QVars(f)) if False else None
            n = BI.concretize_int(self.world, ex, S.nqv(f), 1, 2, "qvars-bound")
            z = self.args[0]
            for i in range(n):
                z = z3.SetAdd(z, S.pl_ty(S.qv(f, S.K(i))))
            return z
        if self.Kop == S.ARRAY_VALUE:
            return z3.SetAdd(union(self.args, Ty), S.pl_ty(f))
        return union(self.args, Ty)


# ---- sizes -------------------------------------------------------------------------------
MEASURES = ["tree", "dag", "leaves", "depth", "symbols", "bool_dag"]


class SizeVariant(OracleVariant):
    walker, tag = "pysmt.oracles.SizeOracle", "size"

    def __init__(self, world, Kop, k, measure):
        self.measure = measure
        OracleVariant.__init__(self, world, Kop, k, "pysmt.oracles.SizeOracle.walk_count_" + measure)
        self.name = "size:%s[%s/%d]" % (measure, S.OPNAMES[Kop], k)

    def walker_obj(self, env):
        return env.fields["_sizeo"]

    def extra_kwargs(self):
        return {"measure": MEASURES.index(self.measure)}

    def mkargs(self, ex):
        if self.measure in ("tree", "leaves", "depth"):
            a = [z3.Const("n%d" % i, I) for i in range(self.k)]
            for x in a:
                ex.assume(x >= 1)
            return a
        return [z3.Const("s%d" % i, NodeSet) for i in range(self.k)]

    def expected(self, ex):
        f, a = self.formula, self.args
        me = z3.SetAdd(z3.EmptySet(Node), f)
        if self.measure == "tree":
            return 1 + (z3.Sum(a) if a else 0)
        if self.measure == "leaves":
            return (z3.Sum(a) if a else 1)
        if self.measure == "depth":
            m = None
            for x in a:
                m = x if m is None else z3.If(x > m, x, m)
            return 1 + (m if m is not None else 0)
        if self.measure == "dag":
            return z3.SetUnion(me, union(a))
        if self.measure == "symbols":
            return z3.SetUnion(me, union(a)) if self.Kop == S.SYMBOL else union(a)
        if self.measure == "bool_dag":
            return me if self.Kop in RELATIONS else z3.SetUnion(me, union(a))

    def compare(self, ex, r, want):
        if self.measure in ("tree", "leaves", "depth"):
            from pyvc.symex import to_int
            w = want if is_z3(want) else z3.IntVal(want)
            return [("equals-definition", to_int(r) == w)]
        return OracleVariant.compare(self, ex, r, want)


def variants(world, tier="quick", only=None):
    out = []
    for cls in (FreeVarsVariant, QfVariant, AtomsVariant, TypesVariant):
        disp = world.repo.dispatch(cls.walker)
        for Kop in range(S.NOPS):
            if Kop == S.ALGEBRAIC_CONSTANT:
                continue
            target = disp.get(Kop)
            if target is None or target.endswith("walk_error"):
                continue
            for k in ARITIES.get(Kop, (S.FIXED_ARITY.get(Kop),)):
                v = cls(world, Kop, k, target)
                if only and not any(o in v.name for o in only):
                    continue
                out.append(v)
    # size measures: every operator (a callback may look at the node: is_symbol / is_constant / is_theory_relation ...)
    for m in MEASURES:
        for Kop in range(S.NOPS):
            if Kop == S.ALGEBRAIC_CONSTANT:
                continue
            for k in ARITIES.get(Kop, (S.FIXED_ARITY.get(Kop),)):
                if k is None:
                    continue
                v = SizeVariant(world, Kop, k, m)
                if only and not any(o in v.name for o in only):
                    continue
                out.append(v)
    return out



# ---- the entry point of the size measures ------------------------------------------------------------
MEASURE_CALLBACK = {"MEASURE_TREE_NODES": "walk_count_tree", "MEASURE_DAG_NODES": "walk_count_dag", "MEASURE_LEAVES": "walk_count_leaves",
                    "MEASURE_DEPTH": "walk_count_depth", "MEASURE_SYMBOLS": "walk_count_symbols", "MEASURE_BOOL_DAG": "walk_count_bool_dag"}
SET_VALUED = ("MEASURE_DAG_NODES", "MEASURE_SYMBOLS", "MEASURE_BOOL_DAG")


def measure_values(repo):
    """{name: number} of the measure constants, read from the class body: `(A, B, ...) = range(n)`"""
    import ast
    mi, ci = repo.find_class("pysmt.oracles.SizeOracle")
    out = {}
    for n in ci["node"].body if "node" in ci else []:
        if isinstance(n, ast.Assign) and len(n.targets) == 1 and isinstance(n.targets[0], ast.Tuple) \
                and isinstance(n.value, ast.Call) and ast.unparse(n.value.func) == "range":
            for i, t in enumerate(n.targets[0].elts):
                out[t.id] = i
    return out


class SizeEntryVariant(Variant):
    """SizeOracle.get_size(formula, measure) for each named measure (and for none given: tree nodes): the walk runs with the
    callback that the class comment documents for that measure installed for every operator, the measure is part of the
    walk's arguments (it is the memo key's first component), and the answer is the walk's number, or the number of elements
    of the walk's set for the three set-valued measures."""
    prop_ids = ("C12",)
    qualname = "pysmt.oracles.SizeOracle.get_size"

    def __init__(self, world, mname):
        self.world, self.mname = world, mname
        self.name = "size-entry:%s" % (mname or "default")

    def setup(self, ex):
        from pyvc.symex import Builtin, FuncVal
        W = self.world
        env = core.make_env(ex, W)
        self.effective = self.mname or "MEASURE_TREE_NODES"
        self.value = measure_values(W.repo)[self.effective]
        self.f = z3.Const("formula", Node)
        W.touch(ex, self.f)
        self.installed, self.walks = [], []
        self.num = z3.Const("walk_number", I)
        self.elems = [z3.Const("elem%d" % i, Node) for i in range(3)]
        ex.assume(z3.Distinct(self.elems))
        v = self
        o = Obj("pysmt.oracles.SizeOracle", {"env": env, "stack": []}, tag="sizeo")

        def set_function(exx, a, kw):
            rest = a[1:] if a and a[0] is o else a
            v.installed.append((rest[0], list(rest[1:])))
            return None

        def walk(exx, a, kw):
            rest = a[1:] if a and a[0] is o else a
            v.walks.append((rest[0] if rest else kw.get("formula"), dict(kw)))
            if v.effective in SET_VALUED:
                return SetVal(list(v.elems))
            return v.num
        # measure_to_fun as the constructor builds it: the dictionary literal of __init__, read from the source
        import ast
        from pyvc.symex import DictVal
        init = W.repo.method("pysmt.oracles.SizeOracle", "__init__")
        mv = measure_values(W.repo)
        items = []
        for n in ast.walk(init.node):
            if isinstance(n, ast.Assign) and ast.unparse(n.targets[0]) == "self.measure_to_fun" and isinstance(n.value, ast.Dict):
                for k_, v_ in zip(n.value.keys, n.value.values):
                    kn, vn = ast.unparse(k_).rsplit(".", 1)[-1], ast.unparse(v_).rsplit(".", 1)[-1]
                    mfi = W.repo.method("pysmt.oracles.SizeOracle", vn)
                    if kn in mv and mfi is not None:
                        items.append([mv[kn], W.wrap_func(mfi, mfi.module, bound=o)])
        o.fields["measure_to_fun"] = DictVal(items)
        o.fields["set_function"] = Builtin("set_function", set_function, bound=o)
        o.fields["walk"] = Builtin("walk", walk, bound=o)
        self.o = o
        fi = W.repo.func(self.qualname)
        fn = W.wrap_func(fi, fi.module, bound=o)
        if self.mname is None:
            return fn, [self.f], {}
        return fn, [self.f], {"measure": self.value}

    def check(self, ex, outcome):
        from pyvc.symex import FuncVal, to_int
        kind, r = outcome
        if kind == "raise":
            return [("no-exception", z3.BoolVal(False))]
        goals = []
        want_cb = MEASURE_CALLBACK[self.effective]
        ok = len(self.installed) >= 1
        if ok:
            fn, types = self.installed[-1]
            nm = getattr(getattr(fn, "fi", None), "name", None) or getattr(fn, "name", None)
            ok = nm == want_cb
            self.got_cb = nm
            alltypes = set(range(S.NOPS))
            flat = set()
            for t in types:
                if isinstance(t, int):
                    flat.add(t)
            goals.append(("callback-installed-for-every-operator", z3.BoolVal(flat >= alltypes)))
        goals.append(("documented-callback-of-the-measure-installed", z3.BoolVal(bool(ok))))
        okw = len(self.walks) == 1 and is_z3(self.walks[0][0]) and self.walks[0][0].eq(self.f)
        goals.append(("walks-the-formula-once", z3.BoolVal(bool(okw))))
        if okw:
            m = self.walks[0][1].get("measure")
            goals.append(("measure-is-part-of-the-walk-arguments", z3.BoolVal(m is not None and (m == self.value if not is_z3(m) else False))))
        if self.effective in SET_VALUED:
            goals.append(("answer-is-the-number-of-elements", (to_int(r) == 3) if (is_z3(r) or isinstance(r, int)) else z3.BoolVal(False)))
        else:
            goals.append(("answer-is-the-number-of-the-walk", (to_int(r) == self.num) if (is_z3(r) or isinstance(r, int)) else z3.BoolVal(False)))
        return goals

    def witness(self, model, ex):
        return {"measure": self.effective, "callback_installed": getattr(self, "got_cb", None)}


_base_variants12 = variants


def variants(world, tier="quick", only=None):
    out = _base_variants12(world, tier, only)
    for m in list(MEASURE_CALLBACK) + [None]:
        v = SizeEntryVariant(world, m)
        if only and not any(o in v.name for o in only):
            continue
        out.append(v)
    return out


def extras(prop, tier, seed):
    """bounded stand-in (never counted as proved): TypesOracle.expand_types / get_types on an
    enumerated family of sorts - its work-list over sort objects is outside pyvc's reach"""
    from pyvc.report import run_bounded
    return [run_bounded("expand_types", tier, seed)] + ([run_bounded("oracles", tier, seed)] if prop == "C12" else [])
