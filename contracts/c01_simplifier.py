"""C01 / C02: rule contract R for every Simplifier.walk_<op> (DESIGN 5/C01)."""
import z3

from pyvc import sorts as S
from pyvc import spec
from pyvc.sorts import Node, Ty, I, B, R
from pyvc.symex import Obj, is_node
from pyvc.harness import Variant
from . import core

WALKER = "pysmt.simplifier.Simplifier"

# rules that go through the binary-string representation: proved per width (Pw)
WIDTH_FAMILY_OPS = (S.BV_EXTRACT, S.BV_ROL, S.BV_ROR, S.BV_SEXT, S.BV_ZEXT, S.BV_ASHR)
WIDTHS = {"quick": (1, 2, 3, 4), "thorough": (1, 2, 3, 4, 5, 6, 8)}

ARITIES = {
    S.AND: (2,), S.OR: (2,), S.PLUS: (2,), S.TIMES: (2,), S.STR_CONCAT: (2, 3),
    S.FUNCTION: (1, 2), S.ARRAY_VALUE: (1, 3, 5),
}


def rule_hyps(a, c):
    """what the traversal guarantees about a simplified child a of c"""
    return [S.type_of(a) == S.type_of(c), S.val(a) == S.val(c), S.semf(a) == S.semf(c),
            z3.IsSubset(S.fv(a), S.fv(c)), z3.Implies(S.isconst(c), S.isconst(a))]


def rule_goals(v, f, Kop, args):
    goals = [("type-preserved", S.type_of(v) == S.type_of(f)),
             ("no-new-free-symbols", z3.IsSubset(S.fv(v), S.fv(f))),
             ("constant-stays-constant", z3.Implies(S.isconst(f), S.isconst(v)))]
    if Kop in S.QUANT_OPS:
        goals.append(("value-preserved", S.semf(v) == S.semf(f)))
    else:
        goals.append(("value-preserved", S.val(v) == S.val(f)))
        if args and Kop != S.FUNCTION:
            allc = [S.isconst(a) for a in args]
            if Kop == S.POW:      # pySMT's own operator: folded for integer exponents only
                e = S.val(args[1])
                allc.append(z3.Or(S.Val.is_VInt(e), z3.And(S.Val.is_VReal(e), z3.IsInt(S.vr(e)))))
                b = S.val(args[0])
                allc.append(z3.Not(z3.And(z3.Or(b == S.VInt(0), b == S.VReal(0)),
                                          z3.Or(z3.And(S.Val.is_VInt(e), S.vi(e) < 0),
                                                z3.And(S.Val.is_VReal(e), S.vr(e) < 0)))))
            if Kop == S.DIV:      # C02 excludes evaluated divisions by zero
                allc.append(z3.Not(z3.Or(S.val(args[1]) == S.VInt(0), S.val(args[1]) == S.VReal(0))))
            goals.append(("C02:ground-complete", z3.Implies(z3.And(allc), S.isconst(v))))
    return goals


KNOWN_CLASSES = {
    # both operands are array-valued constants
    "both-array-values": lambda v: z3.And([S.op(a) == S.ARRAY_VALUE for a in v.args]),
}


def canonicity(ex):
    """C04 lemma: two constants of the same non-array type with the same value
    are the same node (value-keyed hash-consing).  Instantiated for the node
    terms of the path; deliberately NOT stated for array-valued constants."""
    ts = list(ex.ghost.get("touched", {}).values())[:14]
    for i, a in enumerate(ts):
        for b in ts[i + 1:]:
            ex.assume(z3.Implies(z3.And(S.isconst(a), S.isconst(b), S.type_of(a) == S.type_of(b),
                                        z3.Not(Ty.is_ArrT(S.type_of(a))), S.val(a) == S.val(b)), a == b))


class WalkNotSummary(core.Contract):
    """Simplifier.walk_not used from walk_and / walk_or: its own rule contract R
    (proved as walk_not[NOT/1]); callers see nothing else of it."""
    qualname = "pysmt.simplifier.Simplifier.walk_not"

    def when(self, ex, a, kw):
        return ex.depth > 0

    def apply(self, ex, a, kw):
        args = a[2] if len(a) > 2 else kw["args"]
        ex.oblige("requires:walk_not:bool-argument", S.type_of(args[0]) == S.BoolT)
        r = ex.fresh("notres", Node)
        self.world.touch(ex, r)
        for n, g in not_callee_post(r, args[0]):
            ex.assume(g)
        return r


def not_callee_post(r, a):
    """what walk_and / walk_or use of walk_not(_, [a]): the formula argument is ignored"""
    return [("type", S.type_of(r) == S.BoolT),
            ("value", S.val(r) == S.VBool(z3.Not(S.vb(S.val(a))))),
            ("free-symbols", z3.IsSubset(S.fv(r), S.fv(a)))]


class WalkNotCalleeVariant(Variant):
    """proves WalkNotSummary on the real body: any `formula`, one Bool argument"""
    prop_ids = ("C01", "C02")
    qualname = "pysmt.simplifier.Simplifier.walk_not"
    name = "walk_not[callee-contract]"

    def __init__(self, world):
        self.world = world

    def setup(self, ex):
        W = self.world
        env = core.make_env(ex, W)
        W.contracts.pop(WalkNotSummary.qualname, None)
        self.formula, self.a = z3.Const("formula", Node), z3.Const("sarg0", Node)
        W.touch(ex, self.formula)
        W.touch(ex, self.a)
        ex.assume(S.type_of(self.a) == S.BoolT)
        fi = W.repo.func(self.qualname)
        return W.wrap_func(fi, fi.module, bound=env.fields["_simplifier"]), [self.formula], {"args": [self.a]}

    def check(self, ex, outcome):
        if outcome[0] == "raise":
            return [("no-exception", z3.BoolVal(False))]
        self.world.touch(ex, outcome[1])
        return not_callee_post(outcome[1], self.a)


class RuleVariant(Variant):
    """walk_<op>(formula, args): args[i] has the type and value of formula.arg(i)
    and no new free symbols  ==>  result has the type and value of formula, no
    new free symbols, no exception; constants in => constant out (C02)."""
    prop_ids = ("C01", "C02")

    def __init__(self, world, Kop, k, target, width=None, tier="quick"):
        self.world, self.Kop, self.k, self.width, self.tier = world, Kop, k, width, tier
        self.qualname = target
        self.name = "%s[%s/%d%s]" % (target.rsplit(".", 1)[1], S.OPNAMES[Kop], k,
                                     "" if width is None else "/w%d" % width)
        if Kop in ARITIES:
            self.bounded = "arity"
        if width is not None:
            self.bounded = "width"
        self.max_arity = 3

    def setup(self, ex):
        W = self.world
        env = core.make_env(ex, W)
        simp = env.fields["_simplifier"]
        formula = z3.Const("formula", Node)
        args = [z3.Const("sarg%d" % i, Node) for i in range(self.k)]
        self.formula, self.args = formula, args
        ex.assume(S.op(formula) == self.Kop)
        W.learn(ex, formula, op=self.Kop, k=self.k)
        if self.Kop == S.DIV:
            # C01's quantifier: interpretations that evaluate a division by zero are excluded
            d = S.val(S.arg(formula, S.K(1)))
            ex.assume(z3.And(d != S.VInt(0), d != S.VReal(0)))
        if self.Kop == S.POW:
            b, e = S.val(S.arg(formula, S.K(0))), S.val(S.arg(formula, S.K(1)))
            ex.assume(z3.Not(z3.And(z3.Or(b == S.VInt(0), b == S.VReal(0)),
                                    z3.Or(z3.And(S.Val.is_VInt(e), S.vi(e) < 0), z3.And(S.Val.is_VReal(e), S.vr(e) < 0)))))
        if self.Kop in WIDTH_FAMILY_OPS:
            ex.ghost["width_family"] = WIDTHS[self.tier]
        if "walk_not" not in self.qualname:
            c = WalkNotSummary()
            c.world = W
            W.contracts[c.qualname] = c
        else:
            W.contracts.pop(WalkNotSummary.qualname, None)
        if self.width is not None:
            ex.assume(z3.Or(z3.Not(Ty.is_BVT(S.type_of(formula))), Ty.bvw(S.type_of(formula)) == self.width))
            for i in range(self.k):
                t = S.type_of(S.arg(formula, S.K(i)))
                ex.assume(z3.Or(z3.Not(Ty.is_BVT(t)), Ty.bvw(t) == self.width))
        for i, a in enumerate(args):
            c = S.arg(formula, S.K(i))
            W.touch(ex, c)
            for f in W.cached_facts(("rule-req", a.get_id(), c.get_id(), a, c), lambda a=a, c=c: rule_hyps(a, c)):
                ex.assume(f)
            W.touch(ex, a)
        # the quantifier's division-by-zero exclusion is handled by the
        # unconstrained functions int_div0 / real_div0 of the specification
        fi = W.repo.func(self.qualname)
        f = W.wrap_func(fi, fi.module, bound=simp, owner=self.qualname.rsplit(".", 1)[0])
        return f, [formula], {"args": list(args)}

    def check(self, ex, outcome):
        kind, v = outcome
        if kind == "raise":
            return [("no-exception", z3.BoolVal(False))]
        if not is_node(v):
            return [("returns-node", z3.BoolVal(False))]
        self.world.touch(ex, v)
        if self.Kop in (S.ARRAY_SELECT, S.ARRAY_STORE, S.ARRAY_VALUE, S.EQUALS, S.BV_COMP):
            canonicity(ex)
        return rule_goals(v, self.formula, self.Kop, self.args)

    def known_class(self, clause):
        for k in core.known_entries():
            if k.get("function") == self.qualname and k.get("clause") == clause and k.get("class") in KNOWN_CLASSES:
                return k["id"], KNOWN_CLASSES[k["class"]](self)
        return None

    def witness(self, model, ex):
        from pyvc.concretize import node_to_json
        return {"op": S.OPNAMES[self.Kop],
                "formula": node_to_json(model, self.formula, depth=3),
                "args": [node_to_json(model, a, depth=3) for a in self.args]}


REPLAY_KIND = "simplifier-rule"
DEADLINE = {"quick": 240, "thorough": 3000}


def variants(world, tier="quick", only=None):
    disp = world.repo.dispatch(WALKER)
    out = []
    for Kop in range(S.NOPS):
        target = disp.get(Kop)
        if target is None:
            continue
        if only and S.OPNAMES[Kop] not in only and target.rsplit(".", 1)[1] not in only:
            continue
        if target.endswith("walk_error"):
            continue
        ks = ARITIES.get(Kop, (S.FIXED_ARITY.get(Kop),))
        if tier == "thorough" and Kop in (S.AND, S.OR, S.PLUS, S.TIMES):
            ks = (2, 3)
        for k in ks:
            v = RuleVariant(world, Kop, k, target, tier=tier)
            if Kop in WIDTH_FAMILY_OPS:
                v.bounded = "width"
            if Kop in (S.AND, S.OR) and (tier == "quick" or k >= 3):
                # nested conjunctions / disjunctions of the arguments are enumerated up to this arity (the flattening loop);
                # three arguments that may each be a three-fold connective do not finish within any reasonable budget
                v.max_arity = 2
            if Kop in (S.PLUS, S.TIMES):
                v.loop_bound = 3 if (tier == "quick" or k >= 3) else 4
                v.max_arity = 2
            out.append(v)
    if not only or "walk_not" in only:
        out.append(WalkNotCalleeVariant(world))
    return out
