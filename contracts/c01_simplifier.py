"""C01 / C02: rule contract R for every Simplifier.walk_<op> (DESIGN 5/C01)."""
import z3

from pyvc import sorts as S
from pyvc import spec
from pyvc.sorts import Node, Ty, I, B, R
from pyvc.symex import Obj, is_node
from pyvc.harness import Variant
from . import core

WALKER = "pysmt.simplifier.Simplifier"

ARITIES = {
    S.AND: (2, 3), S.OR: (2, 3), S.PLUS: (2, 3), S.TIMES: (2, 3), S.STR_CONCAT: (2, 3),
    S.FUNCTION: (1, 2), S.ARRAY_VALUE: (1, 3, 5),
}


def val_eq(a, b):
    return S.val(a) == S.val(b)


class RuleVariant(Variant):
    """walk_<op>(formula, args): args[i] has the type and value of formula.arg(i)
    and no new free symbols  ==>  result has the type and value of formula, no
    new free symbols, no exception; constants in => constant out (C02)."""
    prop_ids = ("C01", "C02")

    def __init__(self, world, Kop, k, target, width=None):
        self.world, self.Kop, self.k, self.width = world, Kop, k, width
        self.qualname = target
        self.name = "%s[%s/%d%s]" % (target.rsplit(".", 1)[1], S.OPNAMES[Kop], k,
                                     "" if width is None else "/w%d" % width)
        if Kop in ARITIES:
            self.bounded = "arity"
        if width is not None:
            self.bounded = "width"
        self.max_arity = 3

    def setup(self, ex):
        W = self.world
        env = core.make_env(ex, W)
        simp = env.fields["_simplifier"]
        formula = z3.Const("formula", Node)
        args = [z3.Const("sarg%d" % i, Node) for i in range(self.k)]
        self.formula, self.args = formula, args
        ex.assume(S.op(formula) == self.Kop)
        W.learn(ex, formula, op=self.Kop, k=self.k)
        if self.width is not None:
            ex.assume(z3.Or(z3.Not(Ty.is_BVT(S.type_of(formula))), Ty.bvw(S.type_of(formula)) == self.width))
            for i in range(self.k):
                t = S.type_of(S.arg(formula, S.K(i)))
                ex.assume(z3.Or(z3.Not(Ty.is_BVT(t)), Ty.bvw(t) == self.width))
        for i, a in enumerate(args):
            c = S.arg(formula, S.K(i))
            ex.assume(S.type_of(a) == S.type_of(c))
            ex.assume(S.val(a) == S.val(c))
            ex.assume(z3.IsSubset(S.fv(a), S.fv(c)))
            for f in spec.shallow_facts(a):
                ex.assume(f)
        # the quantifier's division-by-zero exclusion is handled by the
        # unconstrained functions int_div0 / real_div0 of the specification
        fi = W.repo.func(self.qualname)
        f = W.wrap_func(fi, fi.module, bound=simp, owner=self.qualname.rsplit(".", 1)[0])
        return f, [formula], {"args": list(args)}

    def check(self, ex, outcome):
        kind, v = outcome
        if kind == "raise":
            return [("no-exception", z3.BoolVal(False))]
        if not is_node(v):
            return [("returns-node", z3.BoolVal(False))]
        f = self.formula
        goals = [
            ("type-preserved", S.type_of(v) == S.type_of(f)),
            ("value-preserved", S.val(v) == S.val(f)),
            ("no-new-free-symbols", z3.IsSubset(S.fv(v), S.fv(f))),
        ]
        if self.args:
            allc = z3.And([S.isconst(a) for a in self.args])
            goals.append(("C02:ground-complete", z3.Implies(allc, S.isconst(v))))
        return goals

    def witness(self, model, ex):
        from pyvc.concretize import node_to_json
        return {"op": S.OPNAMES[self.Kop],
                "formula": node_to_json(model, self.formula, depth=3),
                "args": [node_to_json(model, a, depth=3) for a in self.args]}


def variants(world, only=None):
    disp = world.repo.dispatch(WALKER)
    out = []
    for Kop in range(S.NOPS):
        target = disp.get(Kop)
        if target is None:
            continue
        if only and S.OPNAMES[Kop] not in only and target.rsplit(".", 1)[1] not in only:
            continue
        if target.endswith("walk_error"):
            continue
        ks = ARITIES.get(Kop, (S.FIXED_ARITY.get(Kop),))
        for k in ks:
            out.append(RuleVariant(world, Kop, k, target))
    return out
