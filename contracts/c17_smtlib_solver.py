"""C17: SmtLibSolver against a ghost reference solver.

Ghost state G (the strict reference solver's view, SMT-LIB 2.6 section 4):
    levels   stack of (declared symbols D_i, declared sort constructors Q_i)
    replies  FIFO of replies not yet read by the wrapper
    sat_mode the last command was a check-sat answered 'sat' (get-value legal)
Every command leaves the wrapper through SmtLibCommand.serialize(stdin): its assumed
(standard-derived) contract is  requires legal(cmd, G);  G := step(G, cmd);  one reply enqueued.
Replies come back through solver_stdout.readline / parser.get_assignment_list, which
dequeue.  The real method bodies (decorators included) run on a symbolic state:
declaration sets of arbitrary content at k = 1..3 levels.

Class invariant (pre- and post-condition of every public operation):
    declared_vars / declared_sorts mirror G level by level  and  no reply is pending.
Obligations: every command sent is legal (symbols and sorts declared exactly once while in
scope and before use, push / pop mirrored level by level, get-value only in sat mode), each
reply is read by the operation that caused it, the verdict returned is the reply, the model
assigns every declared term symbol the value the solver reported.
Assumed: pipe order, the reply parser (C08), the command text (C07)."""
import z3

from pyvc import sorts as S
from pyvc.sorts import Node, Ty, NodeSet, I, B
from pyvc.symex import Obj, SetVal, DictVal, Builtin, is_node, is_z3, PyRaise, ExcVal, Unsupported, PathAbort
from pyvc import builtins_impl as BI
from pyvc.harness import Variant
from pyvc.world import Contract
from . import core

DEADLINE = {"quick": 200, "thorough": 600}
REPLAY_KIND = "smtlib-solver"
CLS = "pysmt.smtlib.solver.SmtLibSolver"
CMD = "pysmt.smtlib.script.SmtLibCommand"
IntSet = z3.SetSort(I)
decls_of = z3.Function("decls_of", Node, IntSet)          # sort constructors a formula / symbol needs
reported = z3.Function("reported_value", Node, Node)       # the constant the solver reports for a term


def union(sets, sort):
    z = z3.EmptySet(sort)
    for s in sets:
        z = z3.SetUnion(z, s)
    return z


class G:
    """ghost reference solver"""
    def __init__(self, D, Q):
        self.D, self.Q = list(D), list(Q)
        self.replies = []
        self.sat_mode = False
        self.sent = []

    def allD(self):
        return union(self.D, Node)

    def allQ(self):
        return union(self.Q, I)


class NewCommand(Contract):
    qualname = "new:" + CMD

    def apply(self, ex, a, kw):
        name = kw.get("name", a[0] if a else None)
        args = kw.get("args", a[1] if len(a) > 1 else None)
        return Obj(CMD, {"name": name, "args": args}, tag="cmd")


class Serialize(Contract):
    """cmd.serialize(solver_stdin, daggify=True): the command reaches the reference solver"""
    qualname = CMD + ".serialize"

    def apply(self, ex, a, kw):
        cmd = a[0]
        g = ex.ghost["G"]
        name, args = cmd.fields["name"], cmd.fields["args"]
        g.sent.append(name)

        def rejected():
            """a solver may answer `unsupported` / an error to a command whose content it cannot handle (a sort, a theory
            symbol): its state is then unchanged (SMT-LIB 2.6, 4.1.1).  Modelled for declarations and assertions."""
            if not ex.ghost.get("rejected") and ex.decide(ex.fresh("solver_rejects_the_command", B)):
                ex.ghost["rejected"] = name
                g.replies.append("unsupported")
                return True
            return False
        if name == "declare-fun":
            sym = args[0]
            ex.oblige("legal:symbol-not-yet-declared", z3.Not(z3.IsMember(sym, g.allD())))
            ex.oblige("legal:sorts-of-the-symbol-declared", z3.IsSubset(decls_of(sym), g.allQ()))
            if rejected():
                return None
            g.D[-1] = z3.SetAdd(g.D[-1], sym)
            g.replies.append("success")
            g.sat_mode = False
        elif name == "declare-sort":
            if BI.is_ty(args[0]):
                ex.oblige("legal:declare-sort-names-a-sort-constructor", z3.BoolVal(False))
                raise PathAbort("declare-sort of a sort instance")
            d = BI.to_int(args[0])
            ex.oblige("legal:sort-not-yet-declared", z3.Not(z3.IsMember(d, g.allQ())))
            if rejected():
                return None
            g.Q[-1] = z3.SetAdd(g.Q[-1], d)
            g.replies.append("success")
            g.sat_mode = False
        elif name == "assert":
            f = args[0]
            ex.oblige("legal:asserted-symbols-declared", z3.IsSubset(S.fv(f), g.allD()))
            ex.oblige("legal:asserted-sorts-declared", z3.IsSubset(decls_of(f), g.allQ()))
            if rejected():
                return None
            ex.ghost["asserted"] = f
            g.replies.append("success")
            g.sat_mode = False
        elif name == "push":
            n = args[0]
            if not isinstance(n, int):
                raise Unsupported("symbolic push levels")
            for _ in range(n):
                g.D.append(z3.EmptySet(Node))
                g.Q.append(z3.EmptySet(I))
            g.replies.append("success")
            g.sat_mode = False
        elif name == "pop":
            n = args[0]
            ex.oblige("legal:pop-within-pushed-levels", z3.BoolVal(n <= len(g.D) - 1))
            if n > len(g.D) - 1:
                raise PathAbort("illegal-pop")
            del g.D[len(g.D) - n:]
            del g.Q[len(g.Q) - n:]
            g.replies.append("success")
            g.sat_mode = False
        elif name == "reset-assertions":
            g.D, g.Q = [z3.EmptySet(Node)], [z3.EmptySet(I)]
            g.replies.append("success")
            g.sat_mode = False
        elif name == "check-sat":
            g.replies.append("verdict")
        elif name == "get-value":
            ex.oblige("legal:get-value-in-sat-mode", z3.BoolVal(bool(g.sat_mode)))
            for t in args:
                ex.oblige("legal:value-of-declared-symbols", z3.IsSubset(S.fv(t), g.allD()))
            g.replies.append(("values", list(args)))
            g.replies.append("blank")            # the end of the line of the value reply
        elif name in ("set-option", "set-logic", "set-info"):
            g.replies.append("success")
        elif name == "exit":
            pass
        else:
            raise Unsupported("command %r" % (name,))
        return None


class SerializeToString(Contract):
    """only used for the debug trace"""
    qualname = CMD + ".serialize_to_string"

    def apply(self, ex, a, kw):
        from pyvc.symex import Opaque
        return Opaque("command text")


class StreamWrite(Contract):
    def __init__(self, q):
        self.qualname = q

    def apply(self, ex, a, kw):
        return None


class Readline(Contract):
    """solver_stdout.readline(): the next line of the reply stream"""
    qualname = "io.TextIOWrapper.readline"

    def apply(self, ex, a, kw):
        g = ex.ghost["G"]
        if not g.replies:
            ex.oblige("sync:a-reply-is-pending-when-one-is-read", z3.BoolVal(False))
            raise PathAbort("read-without-reply")
        r = g.replies.pop(0)
        if r == "success":
            return "success\n"
        if r == "blank":
            return "\n"
        if r == "unsupported":
            return "unsupported\n"
        if r == "verdict":
            # the solver's answer: one of the standard's three, or an error line
            v = ex.fresh("verdict", I)
            for i, txt in enumerate(["sat", "unsat", "unknown"]):
                if ex.decide(v == i):
                    ex.ghost["verdict"] = txt
                    g.sat_mode = (txt == "sat")
                    return txt + "\n"
            ex.ghost["verdict"] = "error"
            g.sat_mode = False
            return '(error "some message")\n'
        ex.oblige("sync:line-reply-expected", z3.BoolVal(False))
        raise PathAbort("value reply read as a line")


class GetAssignmentList(Contract):
    """parser.get_assignment_list(stdout): reads exactly the value reply (C08), leaving the end of its line"""
    qualname = "pysmt.smtlib.parser.parser.SmtLibParser.get_assignment_list"

    def apply(self, ex, a, kw):
        g = ex.ghost["G"]
        # blank lines before the reply are white space for the tokenizer
        while g.replies and g.replies[0] == "blank":
            g.replies.pop(0)
        if not g.replies or not isinstance(g.replies[0], tuple):
            ex.oblige("sync:value-reply-is-next", z3.BoolVal(False))
            raise PathAbort("no value reply")
        _, terms = g.replies.pop(0)
        out = []
        for t in terms:
            c = reported(t)
            self.world.touch(ex, c)
            ex.assume(S.isconst(c))
            ex.assume(S.type_of(c) == S.type_of(t))
            out.append((t, c))
        return out


class Simplify(Contract):
    qualname = "pysmt.fnode.FNode.simplify"

    def apply(self, ex, a, kw):
        n = a[0]
        r = ex.fresh("simplified", Node)
        self.world.touch(ex, r)
        ex.assume(z3.IsSubset(S.fv(r), S.fv(n)))
        ex.assume(z3.IsSubset(decls_of(r), decls_of(n)))
        ex.ghost["simplified"] = r
        return r


class GetTypes(Contract):
    """TypesOracle.get_types(f, custom_only=True) (C12): the custom sorts of f, component sorts first; their
    constructors are decls_of(f); every symbol of f needs only constructors among them"""
    qualname = "pysmt.oracles.TypesOracle.get_types"

    def apply(self, ex, a, kw):
        f = a[1]
        n = ex.ghost["ntypes"]
        ts = [z3.Const("sort%d" % i, Ty) for i in range(n)]
        for t in ts:
            ex.assume(Ty.is_CustomT(t))
        if n > 1:
            ex.assume(z3.Distinct(ts))
        z = z3.EmptySet(I)
        for t in ts:
            z = z3.SetAdd(z, S.ty_decl(t))
        ex.assume(decls_of(f) == z)
        # the sort of a symbol of f is one of the sorts of f (C12)
        x = z3.Const("x!sym", Node)
        ex.assume(z3.ForAll([x], z3.Implies(z3.IsMember(x, S.fv(f)), z3.IsSubset(decls_of(x), decls_of(f))),
                            patterns=[z3.IsMember(x, S.fv(f))]))
        return list(ts)


class FreeVars(Contract):
    qualname = "pysmt.fnode.FNode.get_free_variables"

    def apply(self, ex, a, kw):
        return S.fv(a[0])


class NewModel(Contract):
    qualname = "new:pysmt.solvers.eager.EagerModel"

    def apply(self, ex, a, kw):
        return Obj("pysmt.solvers.eager.EagerModel", {"assignment": kw.get("assignment", a[0] if a else None),
                                                      "environment": kw.get("environment")}, tag="model")


class Contains(Contract):
    qualname = "pysmt.formula.FormulaManager.__contains__"

    def apply(self, ex, a, kw):
        return True


class SolverVariant(Variant):
    prop_ids = ("C17",)
    bounded = "arity"

    def __init__(self, world, op, k, n=None, ntypes=0, pending=False):
        self.world, self.op, self.k, self.n, self.ntypes, self.pending = world, op, k, n, ntypes, pending
        base = "pysmt.solvers.solver.Solver" if op in ("is_sat", "is_valid", "is_unsat") else CLS
        self.qualname = base + "." + op
        self.name = "solver:%s%s[%d levels%s%s]" % (op, "" if n is None else "(%d)" % n, k,
                                                   "/%d sorts" % ntypes if op in ("add_assertion", "is_sat", "is_valid", "is_unsat") else "",
                                                   "/pending-pop" if pending else "")
        self.max_arity = 1 if (op == "get_model" and k >= 3) else 2       # symbols per declaration level that are enumerated
        # the exits on a rejected command carry C15 (a failing call leaves the wrapper consistent with the solver)
        if op in ("add_assertion", "is_sat", "is_valid", "is_unsat") and k <= 2 and not pending:
            self.prop_ids = ("C17", "C15")

    def setup(self, ex):
        W = self.world
        env = core.make_env(ex, W)
        for c in (NewCommand(), Serialize(), SerializeToString(), Readline(), GetAssignmentList(), Simplify(), GetTypes(), FreeVars(), NewModel(), Contains(),
                  StreamWrite("io.TextIOWrapper.write"), StreamWrite("io.TextIOWrapper.flush")):
            c.world = W
            W.contracts[c.qualname] = c
        k = self.k
        self.D0 = [z3.Const("D%d" % i, NodeSet) for i in range(k)]
        self.Q0 = [z3.Const("Q%d" % i, IntSet) for i in range(k)]
        # a symbol / sort is declared at one level only (part of the invariant: declared exactly once)
        for i in range(k):
            for j in range(i + 1, k):
                ex.assume(z3.SetIntersect(self.D0[i], self.D0[j]) == z3.EmptySet(Node))
                ex.assume(z3.SetIntersect(self.Q0[i], self.Q0[j]) == z3.EmptySet(I))
        g = G(self.D0, self.Q0)
        ex.ghost["G"] = g
        ex.ghost["ntypes"] = self.ntypes
        ex.ghost["enumerate_sets"] = True
        ex.ghost["symbol_sets"] = list(self.D0)            # invariant: what is declared are symbols
        if ex.decide(ex.fresh("value_reply_line_end_unread", B)):
            g.replies.append("blank")                       # the previous operation was a get_value
        rl = Readline()
        rl.world = W
        stdin = Obj("io.TextIOWrapper", {"write": Builtin("stdin.write", lambda exx, a, kw: None),
                                         "flush": Builtin("stdin.flush", lambda exx, a, kw: None)}, tag="stdin")
        stdout = Obj("io.TextIOWrapper", {"readline": Builtin("stdout.readline", lambda exx, a, kw: rl.apply(exx, a, kw))}, tag="stdout")
        s = Obj(CLS, {"environment": env, "pending_pop": self.pending, "logic": None,
                      "options": Obj("pysmt.smtlib.solver.SmtLibOptions", {"incremental": True, "debug_interaction": False}),
                      "_destroyed": False, "to": env.fields["_typeso"],
                      "declared_vars": [SetVal(zextra=[d]) for d in self.D0],
                      "declared_sorts": [SetVal(zextra=[q]) for q in self.Q0],
                      "solver_stdin": stdin, "solver_stdout": stdout,
                      "parser": Obj("pysmt.smtlib.parser.parser.SmtLibParser", {}, tag="parser")}, tag="solver")
        self.s = s
        self.f = z3.Const("formula", Node)
        W.touch(ex, self.f)
        ex.assume(S.type_of(self.f) == S.BoolT)
        op = self.op
        if op in ("get_value", "get_model"):
            g.sat_mode = True          # pre-condition of the API: called right after a 'sat' answer
        if op == "get_value":
            self.item = z3.Const("item", Node)
            W.touch(ex, self.item)
            ex.assume(z3.IsSubset(S.fv(self.item), g.allD()))      # a value is asked for declared symbols
        fi = W.repo.func(self.qualname)
        fn = W.wrap_func(fi, fi.module, bound=s, owner=self.qualname.rsplit(".", 1)[0])
        if op in ("add_assertion", "is_sat", "is_valid", "is_unsat"):
            return fn, [self.f], {}
        if op in ("push", "pop"):
            return fn, [self.n], {}
        if op == "get_value":
            return fn, [self.item], {}
        return fn, [], {}

    # ------------------------------------------------------------------
    def mirror(self, ex):
        """declared_vars / declared_sorts == the reference solver's levels"""
        g = ex.ghost["G"]
        dv, ds = self.s.fields["declared_vars"], self.s.fields["declared_sorts"]
        if not isinstance(dv, list) or not isinstance(ds, list) or len(dv) != len(g.D) or len(ds) != len(g.Q):
            return [("invariant:same-number-of-levels", z3.BoolVal(False))]
        goals = [("invariant:same-number-of-levels", z3.BoolVal(True))]
        # the levels are separate objects (a declaration at one level must not show at another), and a pending pop
        # has a level of its own to remove
        sep = all(x is not y for l in (dv, ds) for i, x in enumerate(l) for y in l[i + 1:])
        goals.append(("invariant:levels-are-separate-sets", z3.BoolVal(bool(sep))))
        goals.append(("invariant:pending-pop-has-its-level", z3.BoolVal(self.s.fields["pending_pop"] is not True or len(g.D) >= 2)))
        for i, (a, b) in enumerate(zip(dv, g.D)):
            goals.append(("invariant:declared-symbols-mirror-level-%d" % i, BI.set_to_z3(self.world, ex, a, Node) == b))
        for i, (a, b) in enumerate(zip(ds, g.Q)):
            goals.append(("invariant:declared-sorts-mirror-level-%d" % i, BI.set_to_z3(self.world, ex, a, I) == b))
        return goals

    def check(self, ex, outcome):
        kind, r = outcome
        g = ex.ghost["G"]
        op = self.op
        goals = []
        verdict = ex.ghost.get("verdict")
        if kind == "raise":
            # the only legitimate failures: the solver answered 'unknown' or something that is not an answer
            ok = (op in ("solve", "is_sat", "is_valid", "is_unsat") and verdict in ("unknown", "error")) or bool(ex.ghost.get("rejected"))
            goals.append(("error-only-for-unknown-or-error-answer", z3.BoolVal(bool(ok))))
            goals.append(("sync:no-reply-left-unread", z3.BoolVal(all(x == "blank" for x in g.replies))))
            # a failing call leaves the wrapper consistent with the solver (C15): the class invariant holds on this exit too
            return goals + [("failure:" + n, c) for n, c in self.mirror(ex)]
        goals.append(("sync:no-reply-left-unread", z3.BoolVal(all(x == "blank" for x in g.replies))))
        goals.append(("returns-only-if-every-command-was-accepted", z3.BoolVal(not ex.ghost.get("rejected"))))
        goals += self.mirror(ex)
        k = self.k - (1 if self.pending else 0)          # levels denoted on entry
        if op == "push":
            goals.append(("levels-pushed", z3.BoolVal(len(g.D) == k + self.n)))
        elif op == "pop":
            goals.append(("levels-popped", z3.BoolVal(len(g.D) == k - self.n)))
        elif op == "reset_assertions":
            goals.append(("reset-sent", z3.BoolVal(g.sent.count("reset-assertions") == 1)))
        elif op == "add_assertion":
            goals.append(("asserts-the-simplified-formula", z3.BoolVal(g.sent.count("assert") == 1)))
            if g.sent.count("assert") == 1:
                goals.append(("asserted-formula", ex.ghost["asserted"] == ex.ghost["simplified"]))
            goals.append(("assert-is-last", z3.BoolVal(bool(g.sent) and g.sent[-1] == "assert")))
        elif op == "solve":
            goals.append(("verdict-is-the-reply", z3.BoolVal((r is True and verdict == "sat") or (r is False and verdict == "unsat"))))
        elif op in ("is_sat", "is_valid", "is_unsat"):
            t = r if isinstance(r, bool) else None
            want = {"is_sat": verdict == "sat", "is_unsat": verdict == "unsat", "is_valid": verdict == "unsat"}[op]
            goals.append(("shortcut-is-the-corresponding-truth", z3.BoolVal(t is want and verdict in ("sat", "unsat"))))
            goals.append(("one-shot-level-pending", z3.BoolVal(self.s.fields["pending_pop"] is True and len(g.D) == k + 1)))
        elif op == "get_value":
            goals.append(("value-is-the-reported-one", (r == reported(self.item)) if is_node(r) else z3.BoolVal(False)))
            goals.append(("still-in-sat-mode", z3.BoolVal(bool(g.sat_mode))))
        elif op == "get_model":
            asg = r.fields.get("assignment") if isinstance(r, Obj) else None
            if not isinstance(asg, DictVal):
                goals.append(("returns-model", z3.BoolVal(False)))
            else:
                keys = [kx for kx, _ in asg.items]
                els = ex.ghost.get("set_elements", [])
                # every declared term symbol gets the value the solver reported
                w = z3.Const("any_declared_symbol", Node)
                goals.append(("model-assigns-every-declared-symbol",
                              z3.Implies(z3.And(z3.IsMember(w, union(self.D0, Node)), z3.Not(Ty.is_FunT(S.pl_ty(w)))),
                                         z3.Or([kx == w for kx in keys]) if keys else z3.BoolVal(False))))
                for kx, v in asg.items:
                    goals.append(("model-values-are-the-reported-ones", (v == reported(kx)) if is_node(v) else z3.BoolVal(False)))
                zk = z3.EmptySet(Node)
                for kx in keys:
                    zk = z3.SetAdd(zk, kx)
                goals.append(("model-only-declared-symbols", z3.IsSubset(zk, union(self.D0, Node))))
        return goals


def extras(prop, tier, seed):
    if prop not in ("C17", "C15"):
        return []
    from pyvc.report import run_bounded
    return [run_bounded("smtlib_solver", tier, seed), run_bounded("registration", tier, seed)]


def variants(world, tier="quick", only=None):
    out = []
    for k in (1, 2, 3):
        for nt in (0, 1, 2):
            out.append(SolverVariant(world, "add_assertion", k, ntypes=nt))
        for n in (1, 2):
            out.append(SolverVariant(world, "push", k, n))
            if k > n:
                out.append(SolverVariant(world, "pop", k, n))
        out += [SolverVariant(world, "solve", k), SolverVariant(world, "reset_assertions", k),
                SolverVariant(world, "get_value", k), SolverVariant(world, "get_model", k)]
        # zero levels: legal, and a no-op on both sides
        out += [SolverVariant(world, "push", k, 0), SolverVariant(world, "pop", k, 0)]
        for op in ("is_sat", "is_valid", "is_unsat"):
            out.append(SolverVariant(world, op, k, ntypes=1))
        if k >= 2:
            # a one-shot query left its level pending
            out += [SolverVariant(world, "add_assertion", k, ntypes=1, pending=True), SolverVariant(world, "solve", k, pending=True),
                    SolverVariant(world, "push", k, 1, pending=True), SolverVariant(world, "reset_assertions", k, pending=True),
                    SolverVariant(world, "is_sat", k, ntypes=0, pending=True)]
            if k >= 3:
                out.append(SolverVariant(world, "pop", k, 1, pending=True))
            # the values of a one-shot query are asked while its level is still there (the solver is in sat mode)
            out += [SolverVariant(world, "get_value", k, pending=True), SolverVariant(world, "get_model", k, pending=True)]
    if only:
        out = [v for v in out if any(o in v.name for o in only)]
    return out


# ---------------------------------------------------------------------------
# registration of a text-interface solver with the factory
# ---------------------------------------------------------------------------
class GenericRegistrationVariant(Variant):
    """Factory.add_generic_solver(name, args, logics) on a factory that already knows one solver.
    New name: the name is recorded with exactly these arguments and logics, the class registered under it declares these
    logics, the name is appended to the preference list; the other solver's records are untouched.
    Name taken: SolverRedefinitionError, and every record - the rejected call's arguments included - is as before (C15)."""
    prop_ids = ("C17", "C15")
    qualname = "pysmt.factory.Factory.add_generic_solver"
    replay_kind = "factory-registration"

    def __init__(self, world, taken, cores):
        self.world, self.taken, self.cores = world, taken, cores
        self.name = "register:add_generic_solver[%s%s]" % ("name-taken" if taken else "new-name", "/unsat-cores" if cores else "")

    def setup(self, ex):
        from pyvc.world import Contract
        W = self.world
        core.make_env(ex, W)
        Str = z3.StringSort()
        self.old, self.new = z3.Const("registered_name", Str), z3.Const("name", Str)
        ex.assume((self.new == self.old) if self.taken else (self.new != self.old))
        self.oldcls = Obj("builtins.type", {"LOGICS": ["old logics"]}, tag="RegisteredClass")
        self.oldinfo = (["old", "args"], ["old logics"])
        self.all = DictVal([[self.old, self.oldcls]])
        self.gen = DictVal([[self.old, self.oldinfo]])
        self.prefs = DictVal([["Solver", [self.old]], ["Solver supporting Unsat Cores", []]])
        self.args, self.logics = ["solver", "-in"], ["L1", "L2"]
        v = self

        def partial(exx, a, kw):
            return Obj("functools.partial", {"func": a[0], "args": list(a[1:]), "keywords": dict(kw)}, tag="partial")
        W.custom_globals[("functools", "partial")] = Builtin("functools.partial", partial)
        self.fac = Obj("pysmt.factory.Factory", {"_all_solvers": self.all, "_generic_solvers": self.gen, "preferences": self.prefs},
                       tag="factory")
        fi = W.repo.func(self.qualname)
        return W.wrap_func(fi, fi.module, bound=self.fac), [self.new, self.args, self.logics], ({"unsat_core_support": True} if self.cores else {})

    def _entry(self, d, key):
        hits = [v_ for k_, v_ in d.items if (k_ is key) or (is_z3(k_) and k_.eq(key))]
        return hits

    def check(self, ex, outcome):
        kind, r = outcome
        old_all, old_gen = self._entry(self.all, self.old), self._entry(self.gen, self.old)
        prefs = self._entry(self.prefs, "Solver")
        cores = self._entry(self.prefs, "Solver supporting Unsat Cores")
        if kind == "raise":
            ok = self.taken and isinstance(r, ExcVal) and r.cls == "SolverRedefinitionError" if hasattr(r, "cls") else self.taken
            return [("error-only-when-the-name-is-taken", z3.BoolVal(bool(ok))),
                    ("failure:registered-classes-as-before", z3.BoolVal(len(self.all.items) == 1 and old_all == [self.oldcls])),
                    ("failure:recorded-arguments-and-logics-as-before", z3.BoolVal(len(self.gen.items) == 1 and len(old_gen) == 1 and old_gen[0] is self.oldinfo)),
                    ("failure:preference-lists-as-before", z3.BoolVal(len(prefs) == 1 and len(prefs[0]) == 1 and len(cores) == 1 and len(cores[0]) == 0))]
        if self.taken:
            return [("taken-name-rejected", z3.BoolVal(False))]
        new_all, new_gen = self._entry(self.all, self.new), self._entry(self.gen, self.new)
        goals = [("other-solver-untouched", z3.BoolVal(old_all == [self.oldcls] and len(old_gen) == 1 and old_gen[0] is self.oldinfo))]
        okg = len(new_gen) == 1 and isinstance(new_gen[0], tuple) and len(new_gen[0]) == 2 and new_gen[0][0] is self.args and new_gen[0][1] is self.logics
        goals.append(("arguments-and-logics-recorded-under-the-name", z3.BoolVal(bool(okg))))
        okc = len(new_all) == 1 and isinstance(new_all[0], Obj) and new_all[0].fields.get("LOGICS") is self.logics
        goals.append(("registered-class-declares-the-given-logics", z3.BoolVal(bool(okc))))
        if okc:
            c = new_all[0]
            goals.append(("registered-class-starts-the-given-command-line",
                          z3.BoolVal(c.fields.get("args") == [self.args] and (c.fields.get("keywords") or {}).get("LOGICS") is self.logics)))
            goals.append(("unsat-core-support-as-stated", z3.BoolVal(c.fields.get("UNSAT_CORE_SUPPORT") is bool(self.cores))))
        okp = len(prefs) == 1 and len(prefs[0]) == 2 and prefs[0][0] is self.old and prefs[0][1] is self.new
        goals.append(("name-appended-to-the-preference-list", z3.BoolVal(bool(okp))))
        goals.append(("unsat-core-preference-list", z3.BoolVal(len(cores) == 1 and (cores[0] == [self.new] if self.cores else cores[0] == []))))
        return goals


_base_variants17 = variants


def variants(world, tier="quick", only=None):
    out = _base_variants17(world, tier, None)
    for taken in (False, True):
        for cores in (False, True):
            out.append(GenericRegistrationVariant(world, taken, cores))
    if only:
        out = [v for v in out if any(o in v.name for o in only)]
    return out


# ---------------------------------------------------------------------------
# the factory's one-call shortcuts
# ---------------------------------------------------------------------------
class ShortcutVariant(Variant):
    """Factory.is_sat / is_valid / is_unsat / get_model (formula, solver_name, logic): a solver is made for the given name and
    some logic and asked about this formula; what comes back is the
    corresponding truth under the solver's (consistent) answers - satisfiable, not satisfiable, valid -, however it is
    obtained; the solver is released once - also when the question fails (C15).  A body that asks about another formula
    (e.g. the negation) is out of this contract's reach, not a violation."""
    prop_ids = ("C17", "C15")

    def __init__(self, world, op, logic_given):
        self.world, self.op, self.logic_given = world, op, logic_given
        self.qualname = "pysmt.factory.Factory." + op
        self.name = "shortcut:%s[logic-%s]" % (op, logic_given)

    def setup(self, ex):
        from pyvc.world import Contract
        W = self.world
        env = core.make_env(ex, W)
        self.f = z3.Const("formula", Node)
        W.touch(ex, self.f)
        self.detected = Obj("builtins.object", {"name": "detected"}, tag="detected-logic")
        self.given = Obj("builtins.object", {"name": "given"}, tag="given-logic")
        self.auto = Obj("builtins.object", {"name": "auto"}, tag="auto-logic")
        W.custom_globals[("pysmt.factory", "AUTO_LOGIC")] = self.auto
        v = self
        self.log, self.made = [], []

        def get_logic(exx, a, kw):
            v.log.append(("get_logic", a[0]))
            return v.detected
        W.custom_globals[("pysmt.factory", "get_logic")] = Builtin("get_logic", get_logic)
        self.answer = ex.fresh("formula_is_satisfiable", B)
        self.valid = ex.fresh("formula_is_valid", B)
        ex.assume(z3.Implies(self.valid, self.answer))
        self.model = Obj("pysmt.solvers.eager.EagerModel", {}, tag="the-model")

        def mk_solver(exx, a, kw):
            v.made.append(dict(kw))
            s = Obj("pysmt.solvers.solver.Solver", {"_destroyed": False}, tag="one-shot-solver")

            def question(name):
                def q(exx2, a2, kw2):
                    rest = [x for x in a2 if x is not s]
                    v.log.append((name, rest[0] if rest else None))
                    if exx2.decide(exx2.fresh("question_fails", B)):
                        exx2.ghost["question_failed"] = True
                        raise PyRaise(ExcVal("SolverReturnedUnknownResultError", ("unknown",)))
                    if name in ("add_assertion",):
                        return None
                    if name == "get_model":
                        return v.model
                    if name != "solve" and not (rest and is_z3(rest[0]) and rest[0].eq(v.f)):
                        raise Unsupported("a shortcut that asks about another formula than the one given")
                    # the solver's answers are consistent: unsat is not-sat, a valid formula is satisfiable
                    return {"is_sat": v.answer, "solve": v.answer, "is_unsat": z3.Not(v.answer), "is_valid": v.valid}[name]
                return Builtin(name, q, bound=s)
            for nm in ("is_sat", "is_valid", "is_unsat", "add_assertion", "solve", "get_model"):
                s.fields[nm] = question(nm)
            s.fields["exit"] = Builtin("exit", lambda exx2, a2, kw2: v.log.append(("exit", None)), bound=s)
            return s
        self.fac = Obj("pysmt.factory.Factory", {"environment": env}, tag="factory")
        self.fac.fields["Solver"] = Builtin("Solver", mk_solver, bound=self.fac)
        fi = W.repo.func(self.qualname)
        kw = {"solver_name": "the-name"}
        if self.logic_given == "given":
            kw["logic"] = self.given
        elif self.logic_given == "auto":
            kw["logic"] = self.auto
        return W.wrap_func(fi, fi.module, bound=self.fac), [self.f], kw

    def check(self, ex, outcome):
        kind, r = outcome
        goals = []
        names = [n for n, _ in self.log]
        # (which name and logic the solver is made for is the selection's business: C13)
        goals.append(("a-solver-is-made", z3.BoolVal(len(self.made) >= 1)))
        goals.append(("failure:every-solver-made-is-released-once", z3.BoolVal(names.count("exit") == len(self.made))))
        if kind == "raise":
            goals.append(("error-only-when-the-solver-fails", z3.BoolVal(bool(ex.ghost.get("question_failed")))))
            return goals
        asked = [(n, x) for n, x in self.log if n in ("is_sat", "is_valid", "is_unsat", "add_assertion", "solve", "get_model")]
        if self.op == "get_model":
            seq = [n for n, _ in asked]
            sat = ex.decide(self.answer) if is_z3(self.answer) else bool(self.answer)
            goals.append(("asserts-the-formula-then-solves", z3.BoolVal(seq[:2] == ["add_assertion", "solve"] and is_z3(asked[0][1]) and asked[0][1].eq(self.f))))
            if sat:
                goals.append(("model-of-the-solver-returned-when-sat", z3.BoolVal(seq == ["add_assertion", "solve", "get_model"] and r is self.model)))
            else:
                goals.append(("no-model-when-not-sat", z3.BoolVal(seq == ["add_assertion", "solve"] and r is None)))
            return goals
        goals.append(("the-solver-is-asked", z3.BoolVal(len(asked) >= 1)))
        t = ex.truth(r) if not isinstance(r, bool) else z3.BoolVal(r)
        want = {"is_sat": self.answer, "is_unsat": z3.Not(self.answer), "is_valid": self.valid}[self.op]
        goals.append(("shortcut-is-the-corresponding-truth", (t == want) if is_z3(t) else z3.BoolVal(False)))
        return goals


_base_variants17b = variants


def variants(world, tier="quick", only=None):
    out = _base_variants17b(world, tier, None)
    for op in ("is_sat", "is_valid", "is_unsat", "get_model"):
        for lg in ("given", "none", "auto"):
            out.append(ShortcutVariant(world, op, lg))
    if only:
        out = [v for v in out if any(o in v.name for o in only)]
    return out


# ---------------------------------------------------------------------------
# Solver.get_values / get_py_values: the plural calls are the single calls, formula by formula
# ---------------------------------------------------------------------------
class SolverPluralVariant(Variant):
    """Solver.get_values / get_py_values on a two-formula list: each formula maps to what get_value / get_py_value answers
    for that formula (asked once each, about that formula); an error only when a single call fails."""
    prop_ids = ("C17",)

    def __init__(self, world, method):
        self.world, self.method = world, method
        self.single = {"get_values": "get_value", "get_py_values": "get_py_value"}[method]
        self.qualname = "pysmt.solvers.solver.Solver." + method
        self.name = "solver-plural:%s" % method

    def setup(self, ex):
        W = self.world
        env = core.make_env(ex, W)
        self.f, self.g = z3.Const("formula", Node), z3.Const("other_formula", Node)
        for x in (self.f, self.g):
            W.touch(ex, x)
        ex.assume(self.f != self.g)
        self.V = z3.Function("single_call_answer", Node, Node)
        self.asked = []
        v = self
        s = Obj(CLS, {"environment": env}, tag="solver")

        def single(exx, a, kw):
            rest = [x for x in a if x is not s]
            x = rest[0] if rest else kw.get("formula", kw.get("item"))
            v.asked.append(x)
            if exx.decide(exx.fresh("single_call_raises", B)):
                exx.ghost["single_failed"] = True
                raise PyRaise(ExcVal("PysmtTypeError", ("no value",)))
            r_ = v.V(x)
            W.touch(exx, r_)
            return r_
        s.fields[self.single] = Builtin(self.single, single, bound=s)
        fi = W.repo.func(self.qualname)
        return W.wrap_func(fi, fi.module, bound=s), [[self.f, self.g]], {}

    def check(self, ex, outcome):
        kind, r = outcome
        if kind == "raise":
            return [("error-only-when-the-single-call-fails", z3.BoolVal(bool(ex.ghost.get("single_failed"))))]
        if not isinstance(r, DictVal):
            return [("returns-a-dictionary", z3.BoolVal(False))]
        goals = [("one-entry-per-formula", z3.BoolVal(len(r.items) == 2))]
        for x, nm in ((self.f, "first"), (self.g, "second")):
            hit = [v_ for k_, v_ in r.items if is_node(k_) and k_.eq(x)]
            goals.append(("%s-formula-maps-to-its-single-call-answer" % nm, (hit[0] == self.V(x)) if len(hit) == 1 and is_node(hit[0]) else z3.BoolVal(False)))
        return goals


_base_variants17c = variants


def variants(world, tier="quick", only=None):
    out = _base_variants17c(world, tier, None)
    for m in ("get_values", "get_py_values"):
        out.append(SolverPluralVariant(world, m))
    if only:
        out = [v for v in out if any(o in v.name for o in only)]
    return out
