"""C18, the multi-objective wrappers over the single-objective search: optimize (dispatch),
boxed_optimize and lexicographic_optimize of ExternalOptimizerMixin, with the real
_lexicographic_opt of both mixins.  The single-objective search enters through its contract
(proved in contracts/c18_loop.py for every strategy and mixin):

    _optimize(goal, strategy, extra)   C = the constraints in force = user assertions, whatever was asserted
                                       since (ghost stack) and the extra assumptions
        returns None            =>  I does not satisfy C                      (I arbitrary: C unsatisfiable)
        returns (M, cost)       =>  M satisfies C, cost = value of goal in M, and
                                    I satisfies C  =>  V_goal(I) is not better than cost
        the assertion stack is as before the call

Obligations (goal lists of length 1..3, every mix of directions):
  boxed          None only if the assertions are unsatisfiable; otherwise every goal is mapped to a model
                 of the assertions and its own optimum; stack restored
  lexicographic  None only if unsatisfiable; otherwise the values are the exact lexicographic optimum
                 (each v_k optimal among the interpretations that agree with v_1..v_{k-1}), the model
                 returned has these values, and the level pushed by _setup is popped (also on success)
Pareto enumeration (generator with nested search loops) stays with the bounded stand-in."""
import z3

from pyvc import sorts as S
from pyvc.sorts import Node, I, B
from pyvc.symex import Builtin, Obj, is_node, is_z3, PyRaise, ExcVal, Unsupported, PathAbort, DictVal
from pyvc import builtins_impl as BI
from pyvc.harness import Variant
from pyvc.world import Contract
from . import core

DEADLINE = {"quick": 300, "thorough": 900}
REPLAY_KIND = "optimizer-loop"
OPT = "pysmt.optimization.optimizer"
GOALS = {"min": "pysmt.optimization.goal.MinimizationGoal", "max": "pysmt.optimization.goal.MaximizationGoal"}


class MultiVariant(Variant):
    prop_ids = ("C18",)
    bounded = "arity"

    def __init__(self, world, routine, dirs, mixin):
        self.world, self.routine, self.dirs, self.mixin = world, routine, dirs, mixin
        self.cls = OPT + (".SUAOptimizerMixin" if mixin == "sua" else ".IncrementalOptimizerMixin")
        self.qualname = OPT + ".ExternalOptimizerMixin." + routine
        self.name = "%s[%s/%s]" % (routine, ",".join(dirs), mixin)

    def better(self, k, a, b):
        return a < b if self.dirs[k] == "min" else a > b

    def setup(self, ex):
        W = self.world
        env = core.make_env(ex, W)
        g = ex.ghost
        n = len(self.dirs)
        self.feasI = z3.Const("I_satisfies_the_assertions", B)
        self.V = [z3.Const("objective%d_value_under_I" % k, I) for k in range(n)]
        self.terms = [z3.Const("objective%d" % k, Node) for k in range(n)]
        for t in self.terms:
            W.touch(ex, t)
        if n > 1:
            ex.assume(z3.Distinct(self.terms))
        self.goals = [Obj(GOALS[d], {"formula": t, "_bv_signed": False}, tag="goal%d" % k)
                      for k, (d, t) in enumerate(zip(self.dirs, self.terms))]
        self.L0 = z3.Const("levels_on_entry", I)
        g["levels"] = self.L0
        g["stack"] = []                 # [(constraint under I, per-model reading)] asserted since entry, with level marks
        g["marks"] = []
        g["equalities"] = {}            # id of an Equals(term_k, const) node -> (k, value)
        g["costs"] = {}                 # id of a cost constant -> value
        g["calls"] = []
        v = self

        def goal_index(goal):
            for k, gg in enumerate(v.goals):
                if gg is goal:
                    return k
            # optimize() may wrap a MaxSMT goal: not generated here
            raise Unsupported("unknown goal object")

        def constraint_I(exx, node):
            e = exx.ghost["equalities"].get(node.get_id())
            if e is None:
                raise Unsupported("constraint that is not an equality on an earlier objective")
            k, val = e
            return v.V[k] == val, (k, val)

        def optimize_summary(exx, a, kw):
            goal = a[1]
            extra = kw.get("extra_assumption", a[3] if len(a) > 3 else None)
            k = goal_index(goal)
            gg = exx.ghost
            cons = [c for c, _ in gg["stack"]]
            fixed = [m for _, m in gg["stack"]]
            for node in (list(BI.iterate(W, exx, extra)) if extra is not None else []):
                c, m = constraint_I(exx, node)
                cons.append(c)
                fixed.append(m)
            C_I = z3.And([v.feasI] + cons)
            gg["calls"].append(k)
            if exx.decide(exx.fresh("constraints_unsatisfiable", B)):
                exx.assume(z3.Not(C_I))
                # 'unsatisfiable' is a statement about every interpretation, the models handed out earlier included:
                # a model of the assertions that has the fixed values refutes it
                for m0 in gg.setdefault("models", []):
                    holds = [m0.fields["values"][kk] == vv if kk in m0.fields["values"] else None for kk, vv in fixed]
                    if all(h is not None for h in holds):
                        exx.assume(z3.Not(z3.And(holds)) if holds else z3.BoolVal(False))
                return None
            val = exx.fresh("optimum%d" % k, I)
            exx.assume(z3.Implies(C_I, z3.Not(v.better(k, v.V[k], val))))
            # the model satisfies the constraints in force: it has the fixed values of the earlier objectives
            values = {kk: vv for kk, vv in fixed}
            values[k] = val
            m = Obj("pysmt.solvers.solver.Model", {"values": values, "feasible": True}, tag="model")
            gg.setdefault("models", []).append(m)
            c = exx.fresh("cost", Node)
            W.touch(exx, c)
            exx.assume(S.isconst(c))
            gg["costs"][c.get_id()] = val
            return (m, c)

        def equals(exx, a, kw):
            t, c = a[1], a[2]
            r = exx.fresh("fixed", Node)
            W.touch(exx, r)
            for k, tk in enumerate(v.terms):
                if tk.eq(t):
                    val = exx.ghost["costs"].get(c.get_id())
                    if val is None:
                        raise Unsupported("Equals with something that is not a returned cost")
                    exx.ghost["equalities"][r.get_id()] = (k, val)
                    return r
            raise Unsupported("Equals on something that is not an objective")

        def push(exx, a, kw):
            gg = exx.ghost
            gg["levels"] = gg["levels"] + 1
            gg["marks"].append(len(gg["stack"]))
            return None

        def pop(exx, a, kw):
            gg = exx.ghost
            gg["levels"] = gg["levels"] - 1
            if gg["marks"]:
                del gg["stack"][gg["marks"].pop():]
            else:
                exx.oblige("legal:pop-has-a-level-of-this-call", z3.BoolVal(False))
            return None

        def add_assertion(exx, a, kw):
            c, m = constraint_I(exx, a[1])
            exx.ghost["stack"].append((c, m))
            return None

        class C(Contract):
            def __init__(self, q, fn):
                self.qualname, self.fn = q, fn

            def apply(self, exx, a, kw):
                return self.fn(exx, a, kw)
        for q, fn in ((OPT + ".ExternalOptimizerMixin._optimize", optimize_summary),
                      ("pysmt.formula.FormulaManager.Equals", equals),
                      ("pysmt.solvers.solver.Solver.push", push), ("pysmt.solvers.solver.Solver.pop", pop),
                      ("pysmt.solvers.solver.Solver.add_assertion", add_assertion)):
            c = C(q, fn)
            c.world = W
            W.contracts[q] = c
        self.solver = Obj(self.cls, {"environment": env}, tag="optimizer")
        fi = W.repo.func(self.qualname)
        fn = W.wrap_func(fi, fi.module, bound=self.solver, owner=OPT + ".ExternalOptimizerMixin")
        if self.routine == "optimize":
            return fn, [self.goals[0]], {"strategy": "linear"}
        return fn, [list(self.goals)], {"strategy": "binary"}

    def check(self, ex, outcome):
        kind, r = outcome
        g = ex.ghost
        n = len(self.dirs)
        goals = [("assertion-stack-restored", z3.And(g["levels"] == self.L0, z3.BoolVal(len(g["stack"]) == 0)))]
        if kind == "raise":
            return [("no-exception", z3.BoolVal(False))] + goals
        if r is None:
            goals.append(("no-solution-only-if-unsatisfiable", z3.Not(self.feasI)))
            return goals
        cost = lambda c: g["costs"].get(c.get_id()) if is_z3(c) else None
        if self.routine == "optimize":
            m, c = r
            goals += [("model-of-the-assertions", z3.BoolVal(bool(m.fields.get("feasible")))),
                      ("cost-is-the-model's-value", cost(c) == m.fields["values"][0] if cost(c) is not None else z3.BoolVal(False)),
                      ("true-optimum", z3.Implies(self.feasI, z3.Not(self.better(0, self.V[0], cost(c)))))]
            return goals
        if self.routine == "boxed_optimize":
            items = r.items if isinstance(r, DictVal) else None
            if items is None or len(items) != n:
                return goals + [("one-entry-per-goal", z3.BoolVal(False))]
            for k, (gk, val) in enumerate(items):
                goals.append(("entry-%d-is-its-goal" % k, z3.BoolVal(gk is self.goals[k])))
                m, c = val
                cv = cost(c)
                goals.append(("goal-%d-true-optimum" % k, z3.Implies(self.feasI, z3.Not(self.better(k, self.V[k], cv))) if cv is not None else z3.BoolVal(False)))
                goals.append(("goal-%d-cost-is-its-model's-value" % k, cv == m.fields["values"][k] if cv is not None else z3.BoolVal(False)))
            return goals
        # lexicographic
        if not (isinstance(r, tuple) and len(r) == 2):
            return goals + [("returns-model-and-values", z3.BoolVal(False))]
        m, vals = r
        if len(vals) != n:
            return goals + [("one-value-per-goal", z3.BoolVal(False))]
        cv = [cost(c) for c in vals]
        if any(x is None for x in cv):
            return goals + [("values-are-returned-costs", z3.BoolVal(False))]
        goals.append(("model-of-the-assertions", z3.BoolVal(bool(m.fields.get("feasible")))))
        for k in range(n):
            goals.append(("model-has-value-%d" % k, z3.BoolVal(k in m.fields["values"]) if k not in m.fields["values"] else m.fields["values"][k] == cv[k]))
            agree = z3.And([self.V[j] == cv[j] for j in range(k)]) if k else z3.BoolVal(True)
            goals.append(("lexicographic-optimum-%d" % k, z3.Implies(z3.And(self.feasI, agree), z3.Not(self.better(k, self.V[k], cv[k])))))
        return goals

    def witness(self, model, ex):
        return {"routine": self.routine, "directions": list(self.dirs), "mixin": self.mixin}


def variants(world, tier="quick", only=None):
    out = []
    for mx in ("sua", "incr"):
        out.append(MultiVariant(world, "optimize", ("min",), mx))
        for dirs in (("min",), ("max", "min"), ("min", "max", "max")):
            out.append(MultiVariant(world, "boxed_optimize", dirs, mx))
            out.append(MultiVariant(world, "lexicographic_optimize", dirs, mx))
    if only:
        out = [v for v in out if any(o in v.name for o in only)]
    return out


# ---------------------------------------------------------------------------
# MaxSMTGoal.term(): the objective of a weighted soft-clause goal
# ---------------------------------------------------------------------------
class MaxSmtTermVariant(Variant):
    """term() of a goal with k soft clauses (c_i, w_i): a term of the weights' sort whose value under every interpretation is
    the sum of the weights of the clauses that hold (what a MaxSMT optimum maximises)."""
    prop_ids = ("C18",)
    bounded = "arity"
    qualname = "pysmt.optimization.goal.MaxSMTGoal.term"

    def __init__(self, world, k, real):
        self.world, self.k, self.real = world, k, real
        self.name = "goal:maxsmt-term[%d clauses/%s weights]" % (k, "Real" if real else "Int")

    def setup(self, ex):
        W = self.world
        env = core.make_env(ex, W)
        W.custom_globals[("pysmt.optimization.goal", "get_env")] = Builtin("get_env", lambda exx, a, kw: env)
        T = S.RealT if self.real else S.IntT
        self.cs, self.ws = [], []
        for i in range(self.k):
            c, w = z3.Const("clause%d" % i, Node), z3.Const("weight%d" % i, Node)
            for x in (c, w):
                W.touch(ex, x)
            ex.assume(S.type_of(c) == S.BoolT)
            ex.assume(S.type_of(w) == T)
            ex.assume(S.isconst(w))
            self.cs.append(c)
            self.ws.append(w)
        self.g = Obj("pysmt.optimization.goal.MaxSMTGoal", {"soft": [(c, w) for c, w in zip(self.cs, self.ws)], "_bv_signed": False,
                                                             "_real_weights": self.real}, tag="goal")
        fi = W.repo.func(self.qualname)
        return W.wrap_func(fi, fi.module, bound=self.g), [], {}

    def check(self, ex, outcome):
        kind, r = outcome
        if kind == "raise":
            return [("no-exception", z3.BoolVal(False))]
        if not is_node(r):
            return [("returns-term", z3.BoolVal(False))]
        W = self.world
        W.touch(ex, r)
        num = (lambda n: S.Val.vr(S.val(n))) if self.real else (lambda n: S.Val.vi(S.val(n)))
        zero = z3.RealVal(0) if self.real else z3.IntVal(0)
        want = z3.Sum([z3.If(S.Val.vb(S.val(c)), num(w), zero) for c, w in zip(self.cs, self.ws)]) if self.k > 1 else \
            z3.If(S.Val.vb(S.val(self.cs[0])), num(self.ws[0]), zero)
        return [("sort-of-the-weights", S.type_of(r) == (S.RealT if self.real else S.IntT)),
                ("value-is-the-weight-of-the-satisfied-clauses", num(r) == want)]


_base_variants18m = variants


def variants(world, tier="quick", only=None):
    out = _base_variants18m(world, tier, None)
    for real in (False, True):
        for k in (1, 2, 3):
            out.append(MaxSmtTermVariant(world, k, real))
    if only:
        out = [v for v in out if any(o in v.name for o in only)]
    return out


class GoalInitVariant(Variant):
    """MinMaxGoal(terms, sign) / MaxMinGoal(terms, sign): the objective is the maximum / minimum of the terms (the constructor
    of C06, signed or unsigned as requested for bit-vectors), the goal minimises / maximises it, and it reports the signedness
    it was built with (the comparison functions of the search are chosen from it)."""
    prop_ids = ("C18",)
    bounded = "arity"

    def __init__(self, world, cls, sort, sign):
        self.world, self.cls, self.sort, self.sign = world, cls, sort, sign
        self.qualname = "pysmt.optimization.goal.%s.__init__" % cls
        self.name = "goal:%s[%s/%s]" % (cls, sort, "signed" if sign else "unsigned")

    def setup(self, ex):
        W = self.world
        env = core.make_env(ex, W)
        W.custom_globals[("pysmt.optimization.goal", "get_env")] = Builtin("get_env", lambda exx, a, kw: env)
        mgr = env.fields["_formula_manager"]
        self.terms = [z3.Const("term%d" % i, Node) for i in range(2)]
        for t in self.terms:
            W.touch(ex, t)
            ex.assume(S.type_of(t) == (S.BVT(z3.Const("width", I)) if self.sort == "bv" else S.IntT))
        if self.sort == "bv":
            ex.assume(z3.Const("width", I) >= 1)
        self.calls = []
        v = self

        def rec(name):
            def fn(exx, a, kw):
                r = exx.fresh("objective", Node)
                W.touch(exx, r)
                v.calls.append((name, list(a[1:]), r))
                return r
            return fn
        for nm in ("Max", "Min", "MaxBV", "MinBV"):
            c = Contract()
            c.qualname = "pysmt.formula.FormulaManager." + nm
            c.apply = rec(nm)
            c.world = W
            W.contracts[c.qualname] = c
        self.g = Obj("pysmt.optimization.goal." + self.cls, {}, tag="goal")
        fi = W.repo.func(self.qualname)
        return W.wrap_func(fi, fi.module, bound=self.g), [list(self.terms), self.sign], {}

    def check(self, ex, outcome):
        kind, r = outcome
        if kind == "raise":
            return [("no-exception", z3.BoolVal(False))]
        W = self.world
        want = ("Max" if self.cls == "MinMaxGoal" else "Min") + ("BV" if self.sort == "bv" else "")
        goals = [("objective-built-once", z3.BoolVal(len(self.calls) == 1))]
        if len(self.calls) == 1:
            nm, a, res = self.calls[0]
            goals.append(("objective-is-the-%s-of-the-terms" % ("maximum" if self.cls == "MinMaxGoal" else "minimum"), z3.BoolVal(nm == want)))
            if self.sort == "bv":
                goals.append(("signedness-passed-to-the-constructor", z3.BoolVal(len(a) == 2 and a[0] is self.sign)))
                ts = BI.iterate(W, ex, a[1]) if len(a) == 2 else []
            else:
                ts = BI.iterate(W, ex, a[0]) if len(a) >= 1 else []
                if len(a) > 1:
                    ts = list(a)
            goals.append(("over-exactly-the-terms", z3.And([x == y for x, y in zip(ts, self.terms)]) if len(ts) == len(self.terms) else z3.BoolVal(False)))
            fi = W.repo.method("pysmt.optimization.goal." + self.cls, "term")
            t = ex.call(W.wrap_func(fi, fi.module, bound=self.g), [], {})
            goals.append(("term()-is-the-objective", (t == res) if is_node(t) else z3.BoolVal(False)))
        sg = W.getattr(ex, self.g, "signed")
        goals.append(("reports-the-signedness-it-was-built-with", z3.BoolVal(sg is self.sign)))
        for meth, val in (("is_minimization_goal", self.cls == "MinMaxGoal"), ("is_maximization_goal", self.cls == "MaxMinGoal")):
            fi = W.repo.method("pysmt.optimization.goal." + self.cls, meth)
            b = ex.call(W.wrap_func(fi, fi.module, bound=self.g), [], {})
            goals.append(("direction:%s" % meth, z3.BoolVal(b is val)))
        return goals


_base_variants18n = variants


def variants(world, tier="quick", only=None):
    out = _base_variants18n(world, tier, None)
    for cls in ("MinMaxGoal", "MaxMinGoal"):
        for sort in ("int", "bv"):
            for sign in ((False, True) if sort == "bv" else (False,)):
                out.append(GoalInitVariant(world, cls, sort, sign))
    if only:
        out = [v for v in out if any(o in v.name for o in only)]
    return out


class SuaProgressVariant(Variant):
    """SUAOptimizerMixin._optimization_check_progress(client_data, formula, strategy, extra_assumption): the solver is asked once
    under the extra assumptions followed by the cut (when there is one); the caller's lists are NOT modified (the lexicographic
    search hands its list of fixed objectives in as extra assumptions: a cut left in it would constrain the next goal); the
    answer is the solver's model, or None."""
    prop_ids = ("C18",)
    qualname = OPT + ".SUAOptimizerMixin._optimization_check_progress"

    def __init__(self, world, with_formula, with_extra):
        self.world, self.with_formula, self.with_extra = world, with_formula, with_extra
        self.name = "progress:sua[%s/%s]" % ("cut" if with_formula else "no-cut", "extra-assumptions" if with_extra else "no-extra")

    def setup(self, ex):
        W = self.world
        env = core.make_env(ex, W)
        self.cut = z3.Const("cut", Node) if self.with_formula else None
        self.e0 = z3.Const("fixed_objective", Node)
        self.extra = [self.e0] if self.with_extra else None
        self.client = [z3.Const("client_item", Node)]
        for x in [self.cut, self.e0, self.client[0]]:
            if x is not None:
                W.touch(ex, x)
        self.asked = []
        v = self
        self.model = Obj("pysmt.solvers.solver.Model", {}, tag="model")

        def solve(exx, a, kw):
            v.asked.append(kw.get("assumptions", a[1] if len(a) > 1 else None))
            return exx.decide(exx.fresh("satisfiable", B))
        for q, fn in (("pysmt.solvers.solver.Solver.solve", solve), ("pysmt.solvers.solver.Solver.get_model", lambda exx, a, kw: v.model)):
            c = Contract()
            c.qualname, c.apply, c.world = q, fn, W
            W.contracts[q] = c
        self.s = Obj(OPT + ".SUAOptimizerMixin", {"environment": env}, tag="optimizer")
        fi = W.repo.func(self.qualname)
        return W.wrap_func(fi, fi.module, bound=self.s), [self.client, self.cut, "linear"], {"extra_assumption": self.extra}

    def check(self, ex, outcome):
        kind, r = outcome
        if kind == "raise":
            return [("no-exception", z3.BoolVal(False))]
        W = self.world
        goals = [("solver-asked-once", z3.BoolVal(len(self.asked) == 1))]
        if len(self.asked) == 1:
            got = BI.iterate(W, ex, self.asked[0]) if self.asked[0] is not None else []
            want = ([self.e0] if self.with_extra else []) + ([self.cut] if self.with_formula else [])
            goals.append(("assumptions-are-the-extra-ones-then-the-cut", z3.And([a == b for a, b in zip(got, want)]) if len(got) == len(want) and want
                          else z3.BoolVal(len(got) == len(want))))
        if self.with_extra:
            goals.append(("caller's-extra-assumptions-not-modified", z3.BoolVal(len(self.extra) == 1 and self.extra[0] is self.e0)))
        goals.append(("caller's-client-data-not-modified", z3.BoolVal(len(self.client) == 1)))
        goals.append(("answer-is-the-solver's-model-or-none", z3.BoolVal(r is None or r is self.model)))
        return goals


_base_variants18o = variants


def variants(world, tier="quick", only=None):
    out = _base_variants18o(world, tier, None)
    for wf in (True, False):
        for we in (True, False):
            out.append(SuaProgressVariant(world, wf, we))
    if only:
        out = [v for v in out if any(o in v.name for o in only)]
    return out
