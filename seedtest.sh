#!/bin/sh
# usage: seedtest.sh <seed dir name under /tmp/seed_out or /verif/seeded> <PROP> [extra vcheck args]
# applies the seeded change to /repo, runs the check, reverts /repo; the evidence file of the clean tree is kept
S=$1; P=$2; shift 2
D=/verif/seeded/$S
[ -d "$D" ] || { mkdir -p /verif/seeded; cp -r /tmp/seed_out/$S $D; }
git -C /repo apply $D/patch.diff || { echo "PATCH DOES NOT APPLY"; exit 9; }
[ -f /verif/evidence/$P.json ] && cp /verif/evidence/$P.json /tmp/evidence_$P.keep
cd /verif && ./vcheck $P "$@" > /tmp/seedtest_$S.out 2>&1; rc=$?
git -C /repo checkout -- .
[ -f /tmp/evidence_$P.keep ] && mv /tmp/evidence_$P.keep /verif/evidence/$P.json
grep -c "^VIOLATION" /tmp/seedtest_$S.out | sed "s/^/violations: /"
grep "^VIOLATION" /tmp/seedtest_$S.out | head -3 | cut -c1-220
tail -1 /tmp/seedtest_$S.out
echo "exit=$rc"
