import sys, json, time
sys.path.insert(0, '/verif')
from pyvc.repo import Repo
from pyvc.harness import run_variant
from contracts import core, c01_simplifier
repo = Repo()
W = core.make_world(repo)
only = set(sys.argv[1:]) or None
t0=time.time()
for v in c01_simplifier.variants(W, only=only):
    r = run_variant(repo, W, v, deadline_s=120)
    st = {}
    for o in r['obligations']:
        st[o['status']] = st.get(o['status'],0)+1
    print(v.name, 'paths', r['paths'], st, 'aborted', r['aborted'], 'unsupported', r['unsupported'], r['seconds'])
    for o in r['obligations']:
        if o['status']!='proved':
            print('   ', o['name'], o['status'], o.get('outcome'), json.dumps(o.get('model'))[:500])
            print('       pc:', [c[:80] for c in (o.get('pc') or [])][-8:])
print(time.time()-t0)
