#!/bin/sh
# usage: seedtest2.sh <seed dir name under /tmp/seed_out or /verif/seeded> <PROP> [extra vcheck args]
# like seedtest.sh but on a scratch copy of /repo HEAD (PYVC_REPO), so /repo's working tree and /verif/evidence are untouched
S=$1; P=$2; shift 2
D=/verif/seeded/$S
[ -d "$D" ] || { mkdir -p /verif/seeded; cp -r /tmp/seed_out/$S $D; }
T=$(mktemp -d /tmp/seedscr.XXXXXX)
git -C /repo archive HEAD pysmt | tar x -C $T
( cd $T && patch -p1 -s < $D/patch.diff ) || { echo "PATCH DOES NOT APPLY"; rm -rf $T; exit 9; }
cd /verif && PYVC_REPO=$T PYVC_EVIDENCE_DIR=$T/evidence ./vcheck $P "$@" > /tmp/seedtest_$S.out 2>&1; rc=$?
rm -rf $T
grep -c "^VIOLATION" /tmp/seedtest_$S.out | sed "s/^/violations: /"
grep "^VIOLATION" /tmp/seedtest_$S.out | head -3 | cut -c1-220
tail -1 /tmp/seedtest_$S.out
echo "exit=$rc"
