"""Mutation self-test of the contracts (development tool, not a registered check).

For every target file a set of small, syntactically valid mutants is generated from the AST
(comparison / arithmetic / Boolean operator swaps, off-by-one constants, swapped call arguments,
dropped `not`).  A mutant counts only if the repository's own test suite still passes with it
(the kind of change the brief is about).  For those, the quick check of the mapped properties is
run against a scratch copy (PYVC_REPO); a mutant that no check flags is either equivalent or
shows a weak contract - the list is written to tools/mutation_report.json.

usage: python3 tools/mutate.py <scratch dir> [--files a.py,b.py] [--max N] [--seed S]"""
import argparse
import ast
import copy
import json
import os
import random
import shutil
import subprocess
import sys
import time

TARGETS = {
    "pysmt/simplifier.py": ["C01"], "pysmt/type_checker.py": ["C03"], "pysmt/substituter.py": ["C05"],
    "pysmt/oracles.py": ["C12", "C13"], "pysmt/logics.py": ["C13"], "pysmt/rewritings.py": ["C10", "C11", "C20"],
    "pysmt/solvers/solver.py": ["C16", "C15"], "pysmt/smtlib/solver.py": ["C17"], "pysmt/optimization/optimizer.py": ["C18"],
    "pysmt/smtlib/printers.py": ["C07", "C09"], "pysmt/smtlib/parser/parser.py": ["C08", "C09"], "pysmt/walkers/dag.py": ["C14", "C15", "C20"],
    "pysmt/solvers/eager.py": ["C02"], "pysmt/formula.py": ["C06", "C04", "C03"], "pysmt/fnode.py": ["C04", "C06"],
    "pysmt/smtlib/script.py": ["C07", "C16", "C09"], "pysmt/solvers/qelim.py": ["C10"], "pysmt/optimization/goal.py": ["C18"],
    "pysmt/utils.py": ["C07", "C01", "C04"], "pysmt/typing.py": ["C07", "C03"], "pysmt/printers.py": ["C09"], "pysmt/parsing.py": ["C09"],
    "pysmt/walkers/identitydag.py": ["C04", "C05"], "pysmt/walkers/tree.py": ["C07", "C20"], "pysmt/factory.py": ["C13"],
}
CMP = {ast.Lt: ast.LtE, ast.LtE: ast.Lt, ast.Gt: ast.GtE, ast.GtE: ast.Gt, ast.Eq: ast.NotEq, ast.NotEq: ast.Eq,
       ast.Is: ast.IsNot, ast.IsNot: ast.Is, ast.In: ast.NotIn, ast.NotIn: ast.In}
BIN = {ast.Add: ast.Sub, ast.Sub: ast.Add, ast.Mult: ast.FloorDiv, ast.FloorDiv: ast.Mult, ast.LShift: ast.RShift, ast.RShift: ast.LShift,
       ast.BitAnd: ast.BitOr, ast.BitOr: ast.BitAnd, ast.Mod: ast.FloorDiv}


class Mutator(ast.NodeTransformer):
    """applies exactly the k-th applicable mutation"""
    def __init__(self, k):
        self.k, self.n, self.desc = k, 0, None

    def hit(self, node, what):
        i = self.n
        self.n += 1
        if i == self.k:
            self.desc = "%s at line %d" % (what, getattr(node, "lineno", 0))
            return True
        return False

    def visit_Compare(self, node):
        self.generic_visit(node)
        for i, o in enumerate(node.ops):
            if type(o) in CMP and self.hit(node, "%s -> %s" % (type(o).__name__, CMP[type(o)].__name__)):
                node.ops[i] = CMP[type(o)]()
        return node

    def visit_BinOp(self, node):
        self.generic_visit(node)
        if type(node.op) in BIN and not isinstance(node.left, ast.Constant) or (type(node.op) in BIN and isinstance(node.left, ast.Constant) and not isinstance(node.left.value, str)):
            if self.hit(node, "%s -> %s" % (type(node.op).__name__, BIN[type(node.op)].__name__)):
                node.op = BIN[type(node.op)]()
        return node

    def visit_BoolOp(self, node):
        self.generic_visit(node)
        if self.hit(node, "%s -> %s" % (type(node.op).__name__, "Or" if isinstance(node.op, ast.And) else "And")):
            node.op = ast.Or() if isinstance(node.op, ast.And) else ast.And()
        return node

    def visit_UnaryOp(self, node):
        self.generic_visit(node)
        if isinstance(node.op, ast.Not) and self.hit(node, "drop not"):
            return node.operand
        return node

    def visit_Constant(self, node):
        if isinstance(node.value, int) and not isinstance(node.value, bool) and -2 <= node.value <= 64:
            if self.hit(node, "%d -> %d" % (node.value, node.value + 1)):
                return ast.copy_location(ast.Constant(node.value + 1), node)
        elif isinstance(node.value, bool):
            if self.hit(node, "%s -> %s" % (node.value, not node.value)):
                return ast.copy_location(ast.Constant(not node.value), node)
        return node

    def visit_Call(self, node):
        self.generic_visit(node)
        if len(node.args) >= 2 and not node.keywords and all(isinstance(a, (ast.Name, ast.Subscript, ast.Attribute)) for a in node.args[:2]) \
                and ast.dump(node.args[0]) != ast.dump(node.args[1]):
            if self.hit(node, "swap first two arguments of %s" % ast.unparse(node.func)[:40]):
                node.args[0], node.args[1] = node.args[1], node.args[0]
        return node


def count_mutations(tree):
    m = Mutator(-1)
    m.visit(copy.deepcopy(tree))
    return m.n


def run(cmd, cwd=None, env=None, timeout=1800):
    try:
        return subprocess.run(cmd, cwd=cwd, env=env, capture_output=True, text=True, timeout=timeout)
    except subprocess.TimeoutExpired:
        class R:
            returncode, stdout, stderr = 124, "", "timeout"
        return R()


def main():
    ap = argparse.ArgumentParser()
    ap.add_argument("scratch")
    ap.add_argument("--files", default=None)
    ap.add_argument("--max", type=int, default=60)
    ap.add_argument("--seed", type=int, default=1)
    ap.add_argument("--verif", default="/verif")
    ap.add_argument("--out", default=None, help="report file (default: <verif>/tools/mutation_report.json)")
    a = ap.parse_args()
    rng = random.Random(a.seed)
    scratch = os.path.abspath(a.scratch)
    repo = os.path.join(scratch, "repo")
    verif = os.path.join(scratch, "verif")
    if os.path.exists(scratch):
        shutil.rmtree(scratch)
    os.makedirs(scratch)
    run(["git", "clone", "-q", "/repo", repo])
    shutil.copytree(a.verif, verif, ignore=shutil.ignore_patterns("replays", ".git", ".work", "__pycache__"))
    files = a.files.split(",") if a.files else sorted(TARGETS)
    cands = []
    for f in files:
        src = open(os.path.join(repo, f)).read()
        tree = ast.parse(src)
        for k in range(count_mutations(tree)):
            cands.append((f, k))
    rng.shuffle(cands)
    report = {"mutants": [], "started": time.time()}
    env_t = dict(os.environ, PYTHONPATH=repo)
    done = 0
    for f, k in cands:
        if done >= a.max:
            break
        path = os.path.join(repo, f)
        src = open(path).read()
        tree = ast.parse(src)
        m = Mutator(k)
        new = m.visit(tree)
        ast.fix_missing_locations(new)
        try:
            text = ast.unparse(new)
            compile(text, f, "exec")
        except Exception:
            continue
        # ast.unparse drops comments / formatting: the mutant is applied to a normalised copy of the file
        open(path, "w").write(text)
        t = run(["/venv/bin/python", "-m", "pytest", "-q", "-p", "no:cacheprovider", "--timeout=900", "-n", "8", "-x"], cwd=repo, env=env_t, timeout=900)
        entry = {"file": f, "mutation": m.desc, "tests_pass": t.returncode == 0}
        if t.returncode == 0:
            done += 1
            env_c = dict(os.environ, PYVC_REPO=repo)
            caught = {}
            for prop in TARGETS[f]:
                r = run(["./vcheck", prop, "--tier", "quick"], cwd=verif, env=env_c, timeout=1500)
                last = [l for l in r.stdout.strip().split("\n") if l.startswith("property=")]
                caught[prop] = {"exit": r.returncode, "summary": last[-1] if last else r.stdout[-200:],
                                "first_violation": next((l for l in r.stdout.split("\n") if l.startswith("VIOLATION")), None)}
            entry["checks"] = caught
            entry["caught"] = any(c["exit"] == 1 for c in caught.values())
            entry["undecided"] = any(c["exit"] in (2, 3) for c in caught.values())
            print(json.dumps(entry)[:400], flush=True)
        report["mutants"].append(entry)
        open(path, "w").write(src)
        json.dump(report, open(a.out or os.path.join(a.verif, "tools", "mutation_report.json"), "w"), indent=1)
    survivors = [e for e in report["mutants"] if e.get("tests_pass") and not e.get("caught")]
    print("mutants passing the tests: %d, caught: %d, not caught: %d" % (done, done - len(survivors), len(survivors)))
    shutil.rmtree(scratch, ignore_errors=True)


if __name__ == "__main__":
    main()
