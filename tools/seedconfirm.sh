#!/bin/sh
# usage: tools/seedconfirm.sh <dir with patch.diff + demo.py> <PROP> [vcheck args]
# Confirms a seeded change on scratch copies of /repo HEAD (nothing in /repo or /verif/evidence is touched) and runs the check on it:
#   demo.py on a clean archive (must exit 0), demo.py with the patch (must exit non-zero), ./vcheck <PROP> with the patch (PYVC_REPO).
# The test suite with the patch is run separately in a scratch worktree (git -C /repo worktree add ...; pytest pysmt/test).
D=$1; P=$2; shift 2
[ -f "$D/patch.diff" ] || { echo "$D: no patch.diff"; exit 9; }
N=$(basename "$D")
B=$(mktemp -d /tmp/seedbase.XXXXXX); T=$(mktemp -d /tmp/seedscr.XXXXXX)
git -C /repo archive HEAD pysmt | tar x -C "$B"
git -C /repo archive HEAD pysmt | tar x -C "$T"
( cd "$T" && patch -p1 -s < "$D/patch.diff" ) || { echo "$N: PATCH DOES NOT APPLY"; rm -rf "$T" "$B"; exit 9; }
( cd /tmp && PYTHONPATH=$B timeout 300 /venv/bin/python "$D/demo.py" >/tmp/seedconfirm_${N}_clean.out 2>&1 ); echo "$N demo clean rc=$?"
( cd /tmp && PYTHONPATH=$T timeout 300 /venv/bin/python "$D/demo.py" >/tmp/seedconfirm_${N}_seeded.out 2>&1 ); echo "$N demo seeded rc=$? $(tail -1 /tmp/seedconfirm_${N}_seeded.out | cut -c1-200)"
cd /verif && PYVC_REPO=$T PYVC_EVIDENCE_DIR=$T/evidence ./vcheck "$P" --tier quick "$@" > /tmp/seedconfirm_${N}_check.out 2>&1; rc=$?
rm -rf "$T" "$B"
echo "$N violations: $(grep -c '^VIOLATION' /tmp/seedconfirm_${N}_check.out)"
grep "^VIOLATION" /tmp/seedconfirm_${N}_check.out | head -3 | cut -c1-240
echo "$N check exit=$rc"
